------------------------------ MODULE Accessors ------------------------------
(* The name accessors of sqlparse.sql (NameAliasMixin, TokenList) as operators *)
(* on an abstract token list, line by line:                                     *)
(*                                                                              *)
(*   get_parent_name:  dot_idx = first '.' ; prev_ = token_prev(dot_idx)         *)
(*                     remove_quotes(prev_.value) if prev_ is not None else None *)
(*   get_real_name:    _get_first_name(dot_idx, real_name=True)                  *)
(*   get_alias:        kw = first Keyword AS -> _get_first_name(kw_idx + 1, keywords=True) *)
(*                     else if len(tokens) > 2 and some whitespace token:        *)
(*                              _get_first_name(reverse=True)                    *)
(*   get_name:         get_alias() or get_real_name()      (Python `or`: '' is false) *)
(*   has_alias:        get_alias() is not None                                   *)
(*   _get_first_name(idx, reverse, keywords, real_name):                         *)
(*       tokens = self.tokens[idx:] if idx else self.tokens ; reversed if reverse *)
(*       for token: ttype in [Name, Wildcard, String.Symbol (+ Keyword)]         *)
(*                      -> remove_quotes(token.value)        (list membership:   *)
(*                         EXACT types, Name.Builtin / Keyword.DML do not count) *)
(*                  isinstance(token, (Identifier, Function))                    *)
(*                      -> token.get_real_name() if real_name else token.get_name() *)
(*   remove_quotes(val): strip ONE pair if val[0] in "'` and val[0] == val[-1]   *)
(*                                                                              *)
(* A token is a record [ty, val, kids]: ty in                                   *)
(*   name sym wild (the three name-bearing leaf types)  nameb (Name.Builtin)     *)
(*   as kw (exact Keyword) kwd (a Keyword subtype)  dot ws nl other              *)
(*   ident func (groups with the accessors; kids = their token list)  grp (any other group) *)
(* val = the token text as a sequence of one-character strings.                  *)
(*                                                                              *)
(* Two uses.  (1) Design level, C12: for every WRITTEN reference shape           *)
(* (qualifier? name, three quoting styles, alias with or without AS, any         *)
(* whitespace) the accessors return exactly the written parts (invariant         *)
(* WrittenPartsReturned).  (2) Binding: every token list over Alphabet up to      *)
(* MaxLen is printed with the model's five answers and rebuilt from real          *)
(* sqlparse.sql objects; the real accessors must give the same answers            *)
(* (vlib/accrun.py).                                                             *)
(***************************************************************************)
EXTENDS Naturals, Sequences, FiniteSets, TLC, Json

CONSTANTS Mode,        \* "shapes" (design level) | "lists" (emission for the binding)
          MaxLen, Emit

None == [some |-> FALSE, v |-> <<>>]
Some(v) == [some |-> TRUE, v |-> v]

Quotes == {"\"", "'", "`"}
RemoveQuotes(v) == IF Len(v) >= 1 /\ v[1] \in Quotes /\ v[1] = v[Len(v)] THEN SubSeq(v, 2, Len(v) - 1) ELSE v

Leaf(ty, val) == [ty |-> ty, val |-> val, kids |-> <<>>]
Grp(ty, kids) == [ty |-> ty, val |-> <<>>, kids |-> kids]

IsWs(t) == t.ty \in {"ws", "nl"}
NameBearing(t, keywords) == t.ty \in {"name", "sym", "wild"} \/ (keywords /\ t.ty \in {"kw", "as"})

RECURSIVE TextOf(_)
TextOf(t) == IF t.ty \in {"ident", "func", "grp"}
               THEN LET RECURSIVE Cat(_)
                        Cat(i) == IF i > Len(t.kids) THEN <<>> ELSE TextOf(t.kids[i]) \o Cat(i + 1)
                    IN Cat(1)
               ELSE t.val

First(ks, P(_)) == LET c == { i \in 1..Len(ks) : P(ks[i]) } IN IF c = {} THEN 0 ELSE CHOOSE i \in c : \A j \in c : i <= j
DotIdx(ks) == First(ks, LAMBDA t : t.ty = "dot")
AsIdx(ks)  == First(ks, LAMBDA t : t.ty = "as")
\* token_prev(idx): nearest non-whitespace token before position d (1-based), 0 if none
PrevNonWs(ks, d) == LET c == { j \in 1..(d - 1) : ~IsWs(ks[j]) } IN IF c = {} THEN 0 ELSE CHOOSE j \in c : \A x \in c : j >= x
Rev(ks) == [i \in 1..Len(ks) |-> ks[Len(ks) + 1 - i]]

RECURSIVE RealName(_), Alias(_), FirstName(_, _, _)
NameOf(ks) == LET a == Alias(ks) IN IF a.some /\ a.v # <<>> THEN a ELSE RealName(ks)       \* `alias or real_name`

\* _get_first_name over an already sliced / reversed list
FirstName(ks, keywords, real) ==
    LET hit == First(ks, LAMBDA t : NameBearing(t, keywords) \/ t.ty \in {"ident", "func"}) IN
    IF hit = 0 THEN None
    ELSE IF ks[hit].ty \in {"ident", "func"}
           THEN (IF real THEN RealName(ks[hit].kids) ELSE NameOf(ks[hit].kids))
           ELSE Some(RemoveQuotes(ks[hit].val))

RealName(ks) == LET d == DotIdx(ks)                   \* 1-based; the code's 0-based idx is d - 1: falsy for d <= 1
                    from == IF d <= 1 THEN 1 ELSE d
                IN FirstName(SubSeq(ks, from, Len(ks)), FALSE, TRUE)

Alias(ks) == LET a == AsIdx(ks) IN
             IF a # 0 THEN FirstName(SubSeq(ks, a + 1, Len(ks)), TRUE, FALSE)
             ELSE IF Len(ks) > 2 /\ \E i \in 1..Len(ks) : IsWs(ks[i]) THEN FirstName(Rev(ks), FALSE, FALSE)
             ELSE None

ParentName(ks) == LET d == DotIdx(ks) IN
                  IF d = 0 THEN None
                  ELSE LET p == PrevNonWs(ks, d) IN IF p = 0 THEN None ELSE Some(RemoveQuotes(TextOf(ks[p])))
HasAlias(ks) == Alias(ks).some

Answers(ks) == [real |-> RealName(ks), parent |-> ParentName(ks), alias |-> Alias(ks), name |-> NameOf(ks), has_alias |-> HasAlias(ks)]

\* ---- (1) written reference shapes ---------------------------------------------
Chars(s) == CASE s = "a" -> <<"a">> [] s = "b" -> <<"b">> [] s = "c" -> <<"c">> [] OTHER -> <<"x", " ", "y">>
Quoted(body, q) == IF q = "" THEN body ELSE <<q>> \o body \o <<q>>
\* a written name: unquoted (Name), "double quoted" (String.Symbol), `backtick` (Name with the backticks in its value)
NameTok(body, q) == Leaf(IF q = "\"" THEN "sym" ELSE "name", Quoted(body, q))
Gaps == { <<Leaf("ws", <<" ">>)>>, <<Leaf("nl", <<"\n">>)>>, <<Leaf("ws", <<" ">>), Leaf("ws", <<" ">>)>>,
          <<Leaf("nl", <<"\r", "\n">>), Leaf("ws", <<"\t">>)>> }
QStyles == {"", "\"", "`"}
Bodies == { <<"a">>, <<"x", " ", "y">>, <<"'", "n", "'">> }       \* plain, with a blank, with inner quotes

Shapes ==
    { [q |-> q, qq |-> qq, n |-> n, nq |-> nq, al |-> al, aq |-> aq, as |-> as, g1 |-> g1, g2 |-> g2] :
        q \in {<<>>} \cup { <<"s">> }, qq \in QStyles, n \in { <<"t">>, <<"x", " ", "y">> }, nq \in QStyles,
        al \in {<<>>} \cup Bodies, aq \in QStyles, as \in BOOLEAN, g1 \in Gaps, g2 \in Gaps }
\* a body with a blank or quotes must be quoted to be one token
Writable(body, q) == (q # "") \/ (\A i \in 1..Len(body) : body[i] \notin {" ", "'", "\"", "`"})
WellFormed(s) == /\ Writable(s.n, s.nq) /\ (s.q # <<>> => Writable(s.q, s.qq)) /\ (s.q = <<>> => s.qq = "")
                 /\ (s.al # <<>> => Writable(s.al, s.aq)) /\ (s.al = <<>> => (s.aq = "" /\ ~s.as))
                 /\ (s.aq = "`" => \A i \in 1..Len(s.al) : s.al[i] # "`") /\ (s.aq = "\"" => \A i \in 1..Len(s.al) : s.al[i] # "\"")
ListOf(s) ==
    (IF s.q = <<>> THEN <<>> ELSE <<NameTok(s.q, s.qq), Leaf("dot", <<".">>)>>)
    \o <<NameTok(s.n, s.nq)>>
    \o (IF s.al = <<>> THEN <<>>
        ELSE s.g1 \o (IF s.as THEN <<Leaf("as", <<"A", "S">>)>> \o s.g2 ELSE <<>>)
             \o <<Grp("ident", <<NameTok(s.al, s.aq)>>)>>)       \* the grouping engine wraps the alias in an Identifier
Expected(s) == [real |-> Some(s.n), parent |-> (IF s.q = <<>> THEN None ELSE Some(s.q)),
                alias |-> (IF s.al = <<>> THEN None ELSE Some(s.al)),
                name |-> (IF s.al = <<>> THEN Some(s.n) ELSE Some(s.al)), has_alias |-> (s.al # <<>>)]

\* ---- (2) arbitrary token lists for the binding -----------------------------------
SubA == Grp("ident", <<Leaf("name", <<"c">>)>>)
SubB == Grp("ident", <<Leaf("sym", <<"\"", "q", "\"">>), Leaf("dot", <<".">>), Leaf("name", <<"d">>), Leaf("ws", <<" ">>),
                       Grp("ident", <<Leaf("name", <<"e">>)>>)>>)
SubQ == Grp("ident", <<Leaf("sym", <<"\"", "'", "n", "'", "\"">>)>>)      \* an alias whose text inside the quotes is quoted again
SubF == Grp("func", <<Grp("ident", <<Leaf("name", <<"f">>)>>), Grp("grp", <<Leaf("other", <<"(">>), Leaf("other", <<")">>)>>)>>)
Alphabet == { Leaf("name", <<"a">>), Leaf("name", <<"`", "b", "`">>), Leaf("sym", <<"\"", "'", "n", "'", "\"">>), Leaf("sym", <<"\"", "\"">>),
              Leaf("wild", <<"*">>), Leaf("nameb", <<"i", "n", "t">>), Leaf("as", <<"a", "s">>), Leaf("kw", <<"k", "w">>),
              Leaf("kwd", <<"s", "e", "l">>), Leaf("dot", <<".">>), Leaf("ws", <<" ">>), Leaf("nl", <<"\n">>), Leaf("other", <<":", ":">>),
              SubA, SubB, SubQ, SubF }

VARIABLES shape, ks, done
vars == <<shape, ks, done>>

Init == /\ done = FALSE
        /\ IF Mode = "shapes" THEN shape \in { s \in Shapes : WellFormed(s) } /\ ks = ListOf(shape)
           ELSE shape = [q |-> <<>>] /\ ks = <<>>
Add == /\ Mode = "lists" /\ ~done /\ Len(ks) < MaxLen /\ \E t \in Alphabet : ks' = Append(ks, t)
       /\ UNCHANGED <<shape, done>>
Finish == /\ ~done /\ done' = TRUE /\ UNCHANGED <<shape, ks>>
Next == Add \/ Finish
Spec == Init /\ [][Next]_vars

\* C12 at design level
WrittenPartsReturned == (Mode = "shapes") => Answers(ks) = Expected(shape)

Flat(r) == [some |-> r.some, v |-> r.v]
RECURSIVE Ser(_)
Ser(t) == [ty |-> t.ty, val |-> t.val, kids |-> [i \in 1..Len(t.kids) |-> Ser(t.kids[i])]]
PrintDone == (Emit /\ done /\ ks # <<>>) =>
    PrintT("@@" \o ToJson([ks |-> [i \in 1..Len(ks) |-> Ser(ks[i])], ans |-> Answers(ks)]))
=============================================================================
