----------------------------- MODULE ApiHistory -----------------------------
(* C20, histories: the result of parse / split / format depends only on the   *)
(* input and the options.  The model has NO variable through which one call    *)
(* could influence a later one except the configuration of the default lexer   *)
(* (`cfg`), and default_initialization() restores it: that is the claim.       *)
(* TLC enumerates every history up to MaxLen; each is replayed in one process  *)
(* and after every operation performed with cfg = "default" the battery of     *)
(* reference calls must give the pristine results.                             *)
(***************************************************************************)
EXTENDS Naturals, Sequences, FiniteSets, TLC, Json

CONSTANTS MaxLen, Emit

Ops == {"parse", "split", "format_reindent", "format_python", "format_case", "bad_option", "type_error",
        "abandon_keep", "abandon_drop", "recursion_error", "reconfigure", "clear", "default_init",
        "format_aligned", "parse_junk", "add_keywords",
        \* a failing call whose failing statement is not the last one (the generator dies at a mid-stream yield)
        "recursion_error_mid",
        \* calls drawn from a generated pool (SqlGen programs with comments in the gaps): the replay picks the member
        "pool_parse", "pool_split", "pool_strip_cw", "pool_ops_cw", "pool_reindent", "pool_case", "pool_aligned",
        \* the caller edits a returned tree in place (filters do; insert_before / token.value = ... are public API)
        "mutate_result",
        \* byte input that is not valid UTF-8 and carries no encoding (read as Latin-1, as documented)
        "bytes_nonutf8",
        \* two token streams alive at once, consumed in lock-step (zip of two parsestream() generators)
        "interleave_streams",
        \* a call that makes the lexer see very many distinct words
        "many_words"}

VARIABLES hist, cfg, done
vars == <<hist, cfg, done>>

Init == hist = <<>> /\ cfg = "default" /\ done = FALSE

Effect(op, c) == CASE op \in {"reconfigure", "add_keywords"} -> "custom"
                   [] op = "clear"        -> "cleared"
                   [] op = "default_init" -> "default"
                   [] OTHER               -> c

Do(op) == /\ ~done /\ Len(hist) < MaxLen
          /\ cfg' = Effect(op, cfg)
          /\ hist' = Append(hist, [op |-> op, cfg |-> Effect(op, cfg)])
          /\ UNCHANGED done
Stop == ~done /\ hist # <<>> /\ done' = TRUE /\ UNCHANGED <<hist, cfg>>
Next == (\E op \in Ops : Do(op)) \/ Stop
Spec == Init /\ [][Next]_vars

\* the configuration is default again after default_init, whatever happened before
RestoredByDefaultInit == \A i \in 1..Len(hist) : hist[i].op = "default_init" => hist[i].cfg = "default"
PrintDone == (Emit /\ done) => PrintT("@@" \o ToJson([hist |-> hist]))
=============================================================================
