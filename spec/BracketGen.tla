----------------------------- MODULE BracketGen -----------------------------
(* Generator of delimiter-tag sequences for C09 (S->C channel) and design-    *)
(* level comparison of the two matchers of MatchRef.tla: the textbook         *)
(* (interior) reference and the behaviour of the code (own delimiters of a    *)
(* foreign group are candidates).  Sequences are built by Add steps, so TLC   *)
(* enumerates all of them up to MaxLen; a finished sequence is printed with   *)
(* both predictions.                                                          *)
(***************************************************************************)
EXTENDS Naturals, Sequences, FiniteSets, TLC, Json, MatchRef

CONSTANTS Alphabet, MaxLen, MinLen, Emit

VARIABLES seq, done
vars == <<seq, done>>

Init == seq = <<>> /\ done = FALSE
Add(t) == ~done /\ Len(seq) < MaxLen /\ seq' = Append(seq, t) /\ UNCHANGED done
Stop == ~done /\ Len(seq) >= MinLen /\ done' = TRUE /\ UNCHANGED seq
Next == (\E t \in Alphabet : Add(t)) \/ Stop
Spec == Init /\ [][Next]_vars

SetToSeq(S) == LET RECURSIVE F(_)
                   F(X) == IF X = {} THEN <<>> ELSE LET e == CHOOSE x \in X : TRUE IN <<e>> \o F(X \ {e})
               IN F(S)

\* design-level statement of finding C09-own-delimiters: the two matchers agree
MatchersAgree == done => MatchImpl(seq) = MatchRef(seq)
PrintDisagree == (done /\ MatchImpl(seq) # MatchRef(seq)) => PrintT("@@" \o ToJson([tags |-> seq, agree |-> FALSE,
                       impl |-> SetToSeq(MatchImpl(seq)), ref |-> SetToSeq(MatchRef(seq))]))
PrintDone == (Emit /\ done) => PrintT("@@" \o ToJson([tags |-> seq, agree |-> MatchImpl(seq) = MatchRef(seq),
                       impl |-> SetToSeq(MatchImpl(seq)), ref |-> SetToSeq(MatchRef(seq))]))
=============================================================================
