------------------------------ MODULE Frontends ------------------------------
(* C19: all input forms and front ends give the same result.                   *)
(*                                                                             *)
(* Part A (Mode = "decode"): the decode decision tree of Lexer.get_tokens      *)
(* (lexer.py:120-135) over input forms x content classes x encodings:          *)
(*     TextIOBase -> read() ; str -> as is ; bytes + encoding -> decode(enc) ; *)
(*     bytes, no encoding -> utf-8, on UnicodeDecodeError -> Latin-1           *)
(*     (documented: "assumes ... either utf-8 or latin-1").                    *)
(* Part B (Mode = "cli"): sqlformat's argument table (cli.py:create_parser)    *)
(* as a function from flag choices to the option set format() must receive,    *)
(* including the `type=bool` quirk of --comma_first / --compact (any non-empty *)
(* argument string is True).                                                   *)
(* Every enumerated case is printed and realised on the code.                  *)
(***************************************************************************)
EXTENDS Naturals, Sequences, FiniteSets, TLC, Json

CONSTANTS Mode, Emit

Forms    == {"str", "stream", "bytes_enc", "bytes_utf8", "bytes_raw"}
Contents == {"ascii", "latin1", "bmp", "astral", "ascii_backslash", "latin1_backslash", "bmp_backslash"}
Encs     == {"utf-8", "latin-1", "cp1251", "gbk", "utf-16", "utf-16-le", "utf-7"}
Apis     == {"parse", "parsestream", "split", "format"}

Base(c) == CASE c \in {"ascii", "ascii_backslash"} -> "ascii" [] c \in {"latin1", "latin1_backslash"} -> "latin1"
             [] c \in {"bmp", "bmp_backslash"} -> "bmp" [] OTHER -> "astral"
\* can the encoding represent the content class (pools are chosen accordingly: bmp = Cyrillic + CJK)
Representable(c, e) ==
    CASE e \in {"utf-8", "utf-16", "utf-16-le", "utf-7"} -> TRUE
      [] e = "latin-1" -> Base(c) \in {"ascii", "latin1"}
      [] e = "cp1251"  -> Base(c) \in {"ascii"}          \* (Cyrillic is drawn separately; keep the claim simple)
      [] e = "gbk"     -> Base(c) \in {"ascii"}
\* a case is meaningful iff the form can carry the content
Meaningful(f, c, e) ==
    CASE f \in {"str", "stream"} -> e = "utf-8"
      [] f = "bytes_enc"  -> Representable(c, e)
      [] f = "bytes_utf8" -> e = "utf-8"
      [] f = "bytes_raw"  -> e = "latin-1" /\ Base(c) = "latin1"      \* Latin-1 bytes that are not valid UTF-8
\* what the lexer must scan: always the text itself
Decoded(f, c, e) == "text"

\* ---- CLI -------------------------------------------------------------------
BoolFlags == <<"--strip-comments", "-r", "--indent_after_first", "--indent_columns", "-a", "-s">>
BoolDest  == <<"strip_comments", "reindent", "indent_after_first", "indent_columns", "reindent_aligned", "use_space_around_operators">>
Cases     == {"none", "upper", "lower", "capitalize"}
Langs     == {"none", "python", "php"}
Widths    == {"none", "1", "4"}
Wraps     == {"none", "0", "20"}
BoolArgs  == {"none", "True", "False", "x"}        \* type=bool: bool("False") is True
Chan      == {"file", "stdin"}
OutChan   == {"stdout", "outfile", "samefile"}     \* samefile: -o names the input file itself (in-place formatting)
CliEncs   == {"utf-8", "gbk", "latin-1", "utf-16", "utf-16-le"}

BoolOf(a) == a # "none"

VARIABLES done, cs, k
vars == <<done, cs, k>>

DecodeCases == { [form |-> f, content |-> c, enc |-> e, api |-> a] :
                   f \in Forms, c \in Contents, e \in Encs, a \in Apis }
CliDefault == [bools |-> [j \in 1..6 |-> FALSE], k |-> "none", i |-> "none", l |-> "none", w |-> "none", wr |-> "none",
               cf |-> "none", cp |-> "none", inp |-> "file", out |-> "stdout", enc |-> "utf-8"]

Init == /\ done = FALSE /\ k = 1
        /\ IF Mode = "decode" THEN cs \in { x \in DecodeCases : Meaningful(x.form, x.content, x.enc) }
           ELSE cs = CliDefault
\* the CLI case is chosen field by field (so that -simulate samples the product uniformly)
Pick == /\ Mode = "cli" /\ ~done /\ k <= 11
        /\ CASE k = 1  -> \E b \in [1..6 -> BOOLEAN] : cs' = [cs EXCEPT !.bools = b]
             [] k = 2  -> \E v \in Cases : cs' = [cs EXCEPT !.k = v]
             [] k = 3  -> \E v \in Cases : cs' = [cs EXCEPT !.i = v]
             [] k = 4  -> \E v \in Langs : cs' = [cs EXCEPT !.l = v]
             [] k = 5  -> \E v \in Widths : cs' = [cs EXCEPT !.w = v]
             [] k = 6  -> \E v \in Wraps : cs' = [cs EXCEPT !.wr = v]
             [] k = 7  -> \E v \in BoolArgs : cs' = [cs EXCEPT !.cf = v]
             [] k = 8  -> \E v \in BoolArgs : cs' = [cs EXCEPT !.cp = v]
             [] k = 9  -> \E v \in Chan : cs' = [cs EXCEPT !.inp = v]
             [] k = 10 -> \E v \in OutChan : cs' = [cs EXCEPT !.out = v]
             [] k = 11 -> \E v \in CliEncs : cs' = [cs EXCEPT !.enc = v]
        /\ k' = k + 1 /\ UNCHANGED done
Finish == ~done /\ (Mode = "decode" \/ k = 12) /\ done' = TRUE /\ UNCHANGED <<cs, k>>
Next == Pick \/ Finish
Spec == Init /\ [][Next]_vars

Argv(c) ==
    LET bs == [j \in 1..6 |-> IF c.bools[j] THEN <<BoolFlags[j]>> ELSE <<>>] IN
    bs[1] \o bs[2] \o bs[3] \o bs[4] \o bs[5] \o bs[6]
    \o (IF c.k # "none" THEN <<"-k", c.k>> ELSE <<>>)
    \o (IF c.i # "none" THEN <<"-i", c.i>> ELSE <<>>)
    \o (IF c.l # "none" THEN <<"-l", c.l>> ELSE <<>>)
    \o (IF c.w # "none" THEN <<"--indent_width", c.w>> ELSE <<>>)
    \o (IF c.wr # "none" THEN <<"--wrap_after", c.wr>> ELSE <<>>)
    \o (IF c.cf # "none" THEN <<"--comma_first", c.cf>> ELSE <<>>)
    \o (IF c.cp # "none" THEN <<"--compact", c.cp>> ELSE <<>>)

\* the option set format() must be called with (defaults of the parser included)
Opts(c) == [strip_comments |-> c.bools[1], reindent |-> c.bools[2], indent_after_first |-> c.bools[3],
            indent_columns |-> c.bools[4], reindent_aligned |-> c.bools[5], use_space_around_operators |-> c.bools[6],
            keyword_case |-> c.k, identifier_case |-> c.i, output_format |-> c.l,
            indent_width |-> IF c.w = "none" THEN "2" ELSE c.w, wrap_after |-> IF c.wr = "none" THEN "0" ELSE c.wr,
            comma_first |-> BoolOf(c.cf), compact |-> BoolOf(c.cp)]

\* design-level claims
DecodeIsIdentity == Mode = "decode" => Decoded(cs.form, cs.content, cs.enc) = "text"
BoolQuirk == (Mode = "cli" /\ done) => (Opts(cs).comma_first = (cs.cf # "none"))

PrintDone == (Emit /\ done) =>
    PrintT("@@" \o (IF Mode = "decode" THEN ToJson(cs)
                    ELSE ToJson([argv |-> Argv(cs), opts |-> Opts(cs), inp |-> cs.inp, out |-> cs.out, enc |-> cs.enc])))
=============================================================================
