----------------------------- MODULE GroupInfix -----------------------------
(* sqlparse.engine.grouping._group (grouping.py:454-486), the generic joiner   *)
(* of "operand MIDDLE operand" (comparison, operator, identifier list, AS,     *)
(* typecast, assignment ...), on one flat token list, with its real index       *)
(* bookkeeping:                                                                *)
(*                                                                             *)
(*   tidx_offset = 0; pidx, prev_ = None, None                                 *)
(*   for idx, token in enumerate(list(tlist)):          -- snapshot `inp`      *)
(*       tidx = idx - tidx_offset                                              *)
(*       if tidx < 0: continue                                                 *)
(*       if token.is_whitespace: continue                                      *)
(*       if match(token):                                                      *)
(*           nidx, next_ = tlist.token_next(tidx)       -- on the LIVE list    *)
(*           if prev_ and valid_prev(prev_) and valid_next(next_):             *)
(*               from_idx, to_idx = post(tlist, pidx, tidx, nidx)  (= pidx, nidx)*)
(*               grp = tlist.group_tokens(cls, from_idx, to_idx, extend=extend)*)
(*               tidx_offset += to_idx - from_idx                              *)
(*               pidx, prev_ = from_idx, grp                                   *)
(*               continue                                                      *)
(*       pidx, prev_ = tidx, token                                             *)
(*                                                                             *)
(* Token kinds: "v" valid operand, "x" other token (invalid operand), "m" the   *)
(* middle token, "w" whitespace.  A group made by this pass is a valid operand. *)
(* Live list elements are [t, lo, hi] (t = "G" for a group, lo..hi leaf span).  *)
(* Extend = TRUE: identifier-list style (a following join extends the group);   *)
(* FALSE: operation style (nesting to the left).                                *)
(***************************************************************************)
EXTENDS Naturals, Integers, Sequences, FiniteSets, TLC, Json

CONSTANTS MaxLen, Extend, Emit,
          PostMode    \* "pn": post = (pidx, nidx);  "semi": group_assignment's post = (pidx, next `;` after nidx, else nidx)

VARIABLES phase, inp, kids, off, pidx, prevKind, idx, groups, err
vars == <<phase, inp, kids, off, pidx, prevKind, idx, groups, err>>
\* prevKind: kind of prev_ ("none", "v", "x", "m", "G"); groups: set of [lo, hi] created or extended

Init == /\ phase = "build" /\ inp = <<>> /\ kids = <<>> /\ off = 0 /\ pidx = -1 /\ prevKind = "none"
        /\ idx = 0 /\ groups = {} /\ err = ""

AddTok(t) == /\ phase = "build" /\ Len(inp) < MaxLen /\ inp' = Append(inp, t)
             /\ UNCHANGED <<phase, kids, off, pidx, prevKind, idx, groups, err>>
Start == /\ phase = "build" /\ phase' = "run"
         /\ kids' = [i \in 1..Len(inp) |-> [t |-> inp[i], lo |-> i, hi |-> i]]
         /\ UNCHANGED <<inp, off, pidx, prevKind, idx, groups, err>>

IsOperand(k) == k \in {"v", "G"}
\* token_next(tidx) on the live list: first non-whitespace element after position tidx (0-based), or -1
NextIdx(ks, tidx) == LET c == { j \in (tidx + 1)..(Len(ks) - 1) : ks[j + 1].t # "w" } IN
                     IF c = {} THEN -1 ELSE CHOOSE j \in c : \A y \in c : j <= y

Iter ==
    /\ phase = "run" /\ err = "" /\ idx < Len(inp)
    /\ LET tok  == inp[idx + 1]
           tidx == idx - off
       IN IF tidx < 0 \/ tok = "w"
            THEN UNCHANGED <<kids, off, pidx, prevKind, groups, err>>
            ELSE IF tok = "m" /\ IsOperand(prevKind) /\ tidx < Len(kids)
                    /\ NextIdx(kids, tidx) # -1 /\ IsOperand(kids[NextIdx(kids, tidx) + 1].t)
              THEN LET n0 == NextIdx(kids, tidx)
                       semis == { j \in (n0 + 1)..(Len(kids) - 1) : kids[j + 1].t = "s" }
                       n == IF PostMode = "semi" /\ semis # {} THEN CHOOSE j \in semis : \A y \in semis : j <= y ELSE n0
                       f == pidx IN
                   IF ~(0 <= f /\ f <= n /\ n < Len(kids))
                     THEN /\ err' = "index-out-of-range" /\ UNCHANGED <<kids, off, pidx, prevKind, groups>>
                     ELSE LET span == [lo |-> kids[f + 1].lo, hi |-> kids[n + 1].hi] IN
                          /\ kids' = SubSeq(kids, 1, f) \o << [t |-> "G", lo |-> span.lo, hi |-> span.hi] >>
                                     \o SubSeq(kids, n + 2, Len(kids))
                          \* extend: an existing group at `from` swallows the rest; else a new group wraps it
                          /\ groups' = IF Extend /\ kids[f + 1].t = "G"
                                         THEN (groups \ { [lo |-> kids[f + 1].lo, hi |-> kids[f + 1].hi] }) \cup {span}
                                         ELSE groups \cup {span}
                          /\ off' = off + (n - f)
                          /\ pidx' = f /\ prevKind' = "G" /\ err' = ""
              ELSE /\ (tidx < Len(kids) \/ TRUE)
                   /\ pidx' = tidx /\ prevKind' = tok
                   /\ UNCHANGED <<kids, off, groups, err>>
    /\ idx' = idx + 1 /\ UNCHANGED <<phase, inp>>

Done == /\ phase = "run" /\ (idx = Len(inp) \/ err # "") /\ phase' = "done"
        /\ UNCHANGED <<inp, kids, off, pidx, prevKind, idx, groups, err>>

Next == (\E t \in (IF PostMode = "semi" THEN {"v", "x", "m", "w", "s"} ELSE {"v", "x", "m", "w"}) : AddTok(t)) \/ Start \/ Iter \/ Done
Spec == Init /\ [][Next]_vars

\* ---- properties ---------------------------------------------------------------
NoIndexError == err = ""
KidsTile == phase # "build" =>
              /\ \A i \in 1..Len(kids) : kids[i].lo = (IF i = 1 THEN 1 ELSE kids[i - 1].hi + 1)
              /\ (kids # <<>> => kids[Len(kids)].hi = Len(inp))
\* every group starts and ends with an operand leaf (never with the middle token or a blank)
GroupEdges == \A g \in groups : inp[g.lo] = "v" /\ inp[g.hi] \in (IF PostMode = "semi" THEN {"v", "s"} ELSE {"v"})
\* the position remembered for prev_ really holds prev_ (the bookkeeping the code relies on)
PrevIsWhereItSays == (phase = "run" /\ err = "" /\ prevKind # "none" /\ pidx >= 0 /\ pidx < Len(kids)) =>
                        (kids[pidx + 1].t = prevKind \/ (prevKind \in {"v", "x", "m"} /\ kids[pidx + 1].t = "G"))
\* completeness at the top level: no `operand m operand` is left ungrouped when the pass ends
RECURSIVE Sig(_, _)
Sig(ks, i) == IF i > Len(ks) THEN <<>> ELSE (IF ks[i].t = "w" THEN <<>> ELSE <<ks[i].t>>) \o Sig(ks, i + 1)
Complete == phase = "done" /\ err = "" =>
              LET s == Sig(kids, 1) IN
              ~\E i \in 1..(Len(s) - 2) : IsOperand(s[i]) /\ s[i + 1] = "m" /\ IsOperand(s[i + 2])
\* S->C channel: every finished run with the live list and the groups it made; the replay feeds the same token kinds
\* to the real grouping._group (a private function, called directly with synthetic tokens) and compares
PrintDone == (Emit /\ phase = "done") =>
    PrintT("@@" \o ToJson([inp |-> inp, err |-> err,
                           kids |-> [i \in 1..Len(kids) |-> <<kids[i].t, kids[i].lo, kids[i].hi>>],
                           groups |-> { <<g.lo, g.hi>> : g \in groups }]))
=============================================================================
