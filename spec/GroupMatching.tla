--------------------------- MODULE GroupMatching ---------------------------
(* sqlparse.engine.grouping._group_matching, one class, transcribed with its *)
(* real index arithmetic (grouping.py:17-49):                                *)
(*                                                                           *)
(*   opens = []; tidx_offset = 0                                             *)
(*   for idx, token in enumerate(list(tlist)):      -- snapshot `inp`        *)
(*       tidx = idx - tidx_offset                                            *)
(*       if token.is_whitespace: continue                                    *)
(*       if token.match(M_OPEN): opens.append(tidx)                          *)
(*       elif token.match(M_CLOSE):                                          *)
(*           try: open_idx = opens.pop()                                     *)
(*           except IndexError: continue                                     *)
(*           tlist.group_tokens(cls, open_idx, tidx)                         *)
(*           tidx_offset += tidx - open_idx                                  *)
(*                                                                           *)
(* `kids` is the live child list (it shrinks under grouping); an element is  *)
(* [t, lo, hi]: tag and leaf span.  The input is built by AddTok steps so    *)
(* TLC enumerates every sequence up to MaxLen over {o, c, x, w}.             *)
(* OffDelta = 0 is the real code; 1 is the off-by-one mutant (vacuity guard).*)
(***************************************************************************)
EXTENDS Naturals, Integers, Sequences, FiniteSets

CONSTANTS MaxLen, OffDelta

VARIABLES phase, inp, kids, off, opens, idx, found, err
vars == <<phase, inp, kids, off, opens, idx, found, err>>

Init == /\ phase = "build" /\ inp = <<>> /\ kids = <<>> /\ off = 0 /\ opens = <<>>
        /\ idx = 0 /\ found = {} /\ err = ""

AddTok(t) == /\ phase = "build" /\ Len(inp) < MaxLen
             /\ inp' = Append(inp, t)
             /\ UNCHANGED <<phase, kids, off, opens, idx, found, err>>

Start == /\ phase = "build"
         /\ phase' = "run"
         /\ kids' = [i \in 1..Len(inp) |-> [t |-> inp[i], lo |-> i, hi |-> i]]
         /\ UNCHANGED <<inp, off, opens, idx, found, err>>

\* one iteration of the for loop; idx is 0-based like in the code
Iter == /\ phase = "run" /\ err = "" /\ idx < Len(inp)
        /\ LET tok  == inp[idx + 1]
               tidx == idx - off
           IN CASE tok \in {"w", "x"} -> UNCHANGED <<kids, off, opens, found, err>>
                [] tok = "o" -> /\ opens' = Append(opens, tidx)
                                /\ UNCHANGED <<kids, off, found, err>>
                [] tok = "c" ->
                     IF opens = <<>> THEN UNCHANGED <<kids, off, opens, found, err>>   \* `continue`
                     ELSE LET o == opens[Len(opens)] IN
                          IF ~(0 <= o /\ o <= tidx /\ tidx < Len(kids))
                            THEN /\ err' = "index-out-of-range"
                                 /\ UNCHANGED <<kids, off, opens, found>>
                            ELSE /\ opens' = SubSeq(opens, 1, Len(opens) - 1)
                                 \* group_tokens(cls, o, tidx): kids[o..tidx] (0-based, inclusive) -> one group
                                 /\ kids' = SubSeq(kids, 1, o)
                                            \o << [t |-> "G", lo |-> kids[o + 1].lo, hi |-> kids[tidx + 1].hi] >>
                                            \o SubSeq(kids, tidx + 2, Len(kids))
                                 /\ found' = found \cup { [lo |-> kids[o + 1].lo, hi |-> kids[tidx + 1].hi,
                                                           first |-> kids[o + 1].t, last |-> kids[tidx + 1].t] }
                                 /\ off' = off + (tidx - o) + OffDelta
                                 /\ err' = ""
        /\ idx' = idx + 1 /\ UNCHANGED <<phase, inp>>

Done == /\ phase = "run" /\ (idx = Len(inp) \/ err # "")
        /\ phase' = "done" /\ UNCHANGED <<inp, kids, off, opens, idx, found, err>>

Next == (\E t \in {"o", "c", "x", "w"} : AddTok(t)) \/ Start \/ Iter \/ Done
Spec == Init /\ [][Next]_vars

\* ---- reference: textbook stack matcher ------------------------------------
RECURSIVE RefScan(_, _, _, _)
RefScan(s, p, stack, acc) ==
    IF p > Len(s) THEN acc
    ELSE IF s[p] = "o" THEN RefScan(s, p + 1, Append(stack, p), acc)
    ELSE IF s[p] = "c" /\ stack # <<>>
      THEN RefScan(s, p + 1, SubSeq(stack, 1, Len(stack) - 1), acc \cup { <<stack[Len(stack)], p>> })
      ELSE RefScan(s, p + 1, stack, acc)

NoIndexError == err = ""
Correct == phase = "done" =>
             /\ { <<g.lo, g.hi>> : g \in found } = RefScan(inp, 1, <<>>, {})
             /\ \A g \in found : g.first = "o" /\ g.last = "c"   \* starts with opener, ends with closer
\* the live list always covers the leaves in order, without gaps
KidsTile == phase # "build" =>
              /\ \A i \in 1..Len(kids) : kids[i].lo = (IF i = 1 THEN 1 ELSE kids[i - 1].hi + 1)
              /\ (kids # <<>> => kids[Len(kids)].hi = Len(inp))
=============================================================================
