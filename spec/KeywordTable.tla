---------------------------- MODULE KeywordTable ----------------------------
(* C14, keyword half: a word is classified by the FIRST registered dictionary *)
(* that lists its upper-cased form (Lexer.is_keyword, lexer.py:94-105), unless *)
(* an earlier dedicated lexical rule matches it; a word in no dictionary is a  *)
(* Name.  Dicts (registration order), Dedicated (word -> type of the earlier   *)
(* rule that matches the whole word) and Probe (non-dictionary words) are      *)
(* constants extracted from the working tree.                                  *)
(***************************************************************************)
EXTENDS Naturals, Sequences, FiniteSets, TLC, Json

CONSTANTS Dicts,      \* sequence (registration order) of sets of <<WORD, type>> pairs
          Dedicated,  \* set of <<WORD, type>>: words matched entirely by a rule that precedes the generic word rule
          Probe,      \* words that are in no dictionary
          Emit

WordsOf(D) == { p[1] : p \in D }
TypeIn(D, w) == (CHOOSE p \in D : p[1] = w)[2]

\* evaluated once: domains of all dictionaries
Doms == [i \in 1..Len(Dicts) |-> WordsOf(Dicts[i])]
AllWords == UNION { Doms[i] : i \in 1..Len(Dicts) }
DedWords == WordsOf(Dedicated)

FirstDict(w) == CHOOSE i \in 1..Len(Dicts) : w \in Doms[i] /\ \A j \in 1..(i - 1) : w \notin Doms[j]
Classify(w) == IF w \in DedWords THEN TypeIn(Dedicated, w)
               ELSE IF w \in AllWords THEN TypeIn(Dicts[FirstDict(w)], w)
               ELSE "Token.Name"
Shadowed(w) == Cardinality({ i \in 1..Len(Dicts) : w \in Doms[i] }) > 1

VARIABLE done
Init == done = FALSE
Next == ~done /\ done' = TRUE
Spec == Init /\ [][Next]_done

\* the whole classification table in one evaluation
Table == [w \in AllWords \cup Probe |-> [ty |-> Classify(w), shadowed |-> Shadowed(w)]]
\* a word listed by several dictionaries gets the type of the earliest one (the design claim, checked on the data)
EarliestWins == done => \A w \in AllWords : \A i \in 1..Len(Dicts) :
                  (w \in Doms[i] /\ w \notin DedWords /\ \A j \in 1..(i - 1) : w \notin Doms[j]) => Classify(w) = TypeIn(Dicts[i], w)
PrintDone == (Emit /\ done) => PrintT("@@" \o ToJson(Table))
=============================================================================
