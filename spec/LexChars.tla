------------------------------ MODULE LexChars ------------------------------
(* A character-level model of the lexer's rule table (keywords.SQL_REGEX) over *)
(* an alphabet of character CLASSES (DESIGN 4.1, Appendix B).  Every rule that *)
(* can fire on the alphabet is one operator R<k>(t, p): the exclusive end      *)
(* index of its match at position p of text t, or 0.  The operators are        *)
(* written from the regular expressions with their priority semantics (greedy  *)
(* / lazy, alternation order, back-tracking to satisfy look-aheads, look-      *)
(* behinds on the previous character).  Lex(t) is the scan loop of LexScan     *)
(* with these rules: first matching rule wins, else a one-character Error.     *)
(*                                                                             *)
(* Symbols: sq ' dq " bt ` bs \ dash - slash / star * hash # dollar $ plus +   *)
(* colon : qm ? semi ;, lp ( rp ) dot . eq = lt(<~!) lf cr sp(blank) tab(other *)
(* \s) a(letter)                                                               *)
(* w(\w char that is no [A-ZÀ-Ü_] letter and no digit) d(digit) us _           *)
(* nul(character no rule accepts).  Rules needing characters outside the       *)
(* alphabet (hex, exponent floats, %s, @name, [name], ´name´, keyword words)   *)
(* are not reachable on it and are left out; rule 27 is dead code (whenever    *)
(* rule 26 fails there is no later double quote, so 27 fails as well).         *)
(***************************************************************************)
EXTENDS Naturals, Integers, Sequences

Sigma == {"sq", "dq", "bt", "bs", "dash", "slash", "star", "hash", "dollar", "plus", "colon", "qm", "semi",
          "lp", "rp", "dot", "eq", "lt", "lf", "cr", "sp", "tab", "a", "w", "d", "us", "nul", "amp"}

At(t, i) == IF i >= 1 /\ i <= Len(t) THEN t[i] ELSE "eot"

IsLetter(c)  == c = "a"                          \* [A-ZÀ-Ü] under IGNORECASE
IsWord(c)    == c \in {"a", "w", "d", "us"}      \* \w
IsDigit(c)   == c = "d"
IsSpace(c)   == c \in {"sp", "tab", "lf", "cr"}  \* \s  (sp = the blank itself, tab = any other \s character)
LetterOrUs(c) == c \in {"a", "us"}               \* [_A-ZÀ-Ü]
IsName2(c)   == IsWord(c) \/ c \in {"dollar", "hash"}   \* [$#\w]

\* exclusive end of the maximal run of characters of the given kind starting at i (i if none)
InKind(k, c) == CASE k = "word" -> IsWord(c) [] k = "digit" -> IsDigit(c) [] k = "name2" -> IsName2(c)
                  [] k = "space" -> IsSpace(c) [] k = "eq" -> c \in {"eq", "lt"} [] k = "op" -> c \in {"plus", "amp", "slash", "hash", "dash"}     \* amp = ^ & |
RECURSIVE RunEnd(_, _, _)
RunEnd(t, i, k) == IF i <= Len(t) /\ InKind(k, t[i]) THEN RunEnd(t, i + 1, k) ELSE i

WordRunEnd(t, i)  == RunEnd(t, i, "word")
DigitRunEnd(t, i) == RunEnd(t, i, "digit")
Name2RunEnd(t, i) == RunEnd(t, i, "name2")
SpaceRunEnd(t, i) == RunEnd(t, i, "space")

\* .*?(\r\n|\r|\n|$)   from position i
RECURSIVE LineEnd(_, _)
LineEnd(t, i) == IF i > Len(t) THEN i
                 ELSE IF t[i] = "cr" /\ At(t, i + 1) = "lf" THEN i + 2
                 ELSE IF t[i] \in {"cr", "lf"} THEN i + 1
                 ELSE LineEnd(t, i + 1)
\* [\s\S]*?\*/   from position i: exclusive end of the first "*/" at or after i, 0 if none
RECURSIVE StarSlash(_, _)
StarSlash(t, i) == IF i + 1 > Len(t) THEN 0
                   ELSE IF t[i] = "star" /\ t[i + 1] = "slash" THEN i + 2
                   ELSE StarSlash(t, i + 1)

\* (--|# )
CmtOpen(t, p) == (At(t, p) = "dash" /\ At(t, p + 1) = "dash") \/ (At(t, p) = "hash" /\ At(t, p + 1) = "sp")

R0(t, p) == IF CmtOpen(t, p) /\ At(t, p + 2) = "plus" THEN LineEnd(t, p + 3) ELSE 0
R1(t, p) == IF At(t, p) = "slash" /\ At(t, p + 1) = "star" /\ At(t, p + 2) = "plus" THEN StarSlash(t, p + 3) ELSE 0
R2(t, p) == IF CmtOpen(t, p) THEN LineEnd(t, p + 2) ELSE 0
R3(t, p) == IF At(t, p) = "slash" /\ At(t, p + 1) = "star" THEN StarSlash(t, p + 2) ELSE 0
R4(t, p) == IF At(t, p) = "cr" /\ At(t, p + 1) = "lf" THEN p + 2
            ELSE IF At(t, p) \in {"cr", "lf"} THEN p + 1 ELSE 0
R5(t, p) == IF IsSpace(At(t, p)) THEN p + 1 ELSE 0
R6(t, p) == IF At(t, p) = "colon" /\ At(t, p + 1) = "eq" THEN p + 2 ELSE 0
R7(t, p) == IF At(t, p) = "colon" /\ At(t, p + 1) = "colon" THEN p + 2 ELSE 0
R8(t, p) == IF At(t, p) = "star" THEN p + 1 ELSE 0

\* q (qq | \q | [^q])* q  with back-tracking in the order of the alternatives; esc = TRUE iff \q is an alternative
RECURSIVE QLoop(_, _, _, _)
QLoop(t, i, q, esc) ==
    LET a == IF At(t, i) = q /\ At(t, i + 1) = q THEN QLoop(t, i + 2, q, esc) ELSE 0
        b == IF a # 0 THEN a
             ELSE IF esc /\ At(t, i) = "bs" /\ At(t, i + 1) = q THEN QLoop(t, i + 2, q, esc) ELSE 0
        c == IF b # 0 THEN b
             ELSE IF i <= Len(t) /\ t[i] # q THEN QLoop(t, i + 1, q, esc) ELSE 0
    IN IF c # 0 THEN c ELSE IF At(t, i) = q THEN i + 1 ELSE 0

R9(t, p)  == IF At(t, p) = "bt" THEN QLoop(t, p + 1, "bt", FALSE) ELSE 0
R25(t, p) == IF At(t, p) = "sq" THEN QLoop(t, p + 1, "sq", TRUE) ELSE 0
R26(t, p) == IF At(t, p) = "dq" THEN QLoop(t, p + 1, "dq", TRUE) ELSE 0

\* ((?<![\w\"\$])\$(?:[_A-ZÀ-Ü]\w*)?\$)[\s\S]*?\1
RECURSIVE FindSeq(_, _, _)
FindSeq(t, i, s) == IF i + Len(s) - 1 > Len(t) THEN 0
                    ELSE IF SubSeq(t, i, i + Len(s) - 1) = s THEN i + Len(s)
                    ELSE FindSeq(t, i + 1, s)
R11(t, p) ==
    IF At(t, p) # "dollar" \/ (p > 1 /\ (IsWord(t[p - 1]) \/ t[p - 1] \in {"dq", "dollar"})) THEN 0
    ELSE LET j == WordRunEnd(t, p + 1)
             tagged == LetterOrUs(At(t, p + 1)) /\ At(t, j) = "dollar"
             oe == IF tagged THEN j ELSE IF At(t, p + 1) = "dollar" THEN p + 1 ELSE 0     \* index of the opener's last $
         IN IF oe = 0 THEN 0 ELSE FindSeq(t, oe + 1, SubSeq(t, p, oe))

R12(t, p) == IF At(t, p) = "qm" THEN p + 1 ELSE 0
R14(t, p) == IF At(t, p) \in {"dollar", "colon"} /\ (p = 1 \/ ~IsWord(t[p - 1])) /\ IsWord(At(t, p + 1))
               THEN WordRunEnd(t, p + 1) ELSE 0
R15(t, p) == IF At(t, p) = "bs" /\ IsWord(At(t, p + 1)) THEN WordRunEnd(t, p + 1) ELSE 0
R17(t, p) == IF At(t, p) # "hash" THEN 0
             ELSE IF At(t, p + 1) = "hash" /\ IsLetter(At(t, p + 2)) /\ IsWord(At(t, p + 3)) THEN WordRunEnd(t, p + 3)
             ELSE IF IsLetter(At(t, p + 1)) /\ IsWord(At(t, p + 2)) THEN WordRunEnd(t, p + 2)
             ELSE 0
R18(t, p) == IF IsLetter(At(t, p)) /\ At(t, SpaceRunEnd(t, WordRunEnd(t, p))) = "dot" THEN WordRunEnd(t, p) ELSE 0
R19(t, p) == IF p > 1 /\ t[p - 1] = "dot" /\ IsLetter(At(t, p)) THEN Name2RunEnd(t, p + 1) ELSE 0
R20(t, p) == IF IsLetter(At(t, p)) /\ At(t, WordRunEnd(t, p)) = "lp" THEN WordRunEnd(t, p) ELSE 0

\* largest e in lo..hi with At(t, e) not in [_A-ZÀ-Ü] (back-tracking of a greedy \d run against the final look-ahead); 0 if none
RECURSIVE BackOff(_, _, _)
BackOff(t, e, lo) == IF e < lo THEN 0 ELSE IF ~LetterOrUs(At(t, e)) THEN e ELSE BackOff(t, e - 1, lo)

R23(t, p) ==
    IF LetterOrUs(At(t, p)) THEN 0
    ELSE LET q == IF At(t, p) = "dash" THEN p + 1 ELSE p
             d1 == DigitRunEnd(t, q)
             alt1 == IF d1 > q /\ At(t, d1) = "dot" THEN BackOff(t, DigitRunEnd(t, d1 + 1), d1 + 1) ELSE 0
             alt2 == IF At(t, q) = "dot" /\ IsDigit(At(t, q + 1)) THEN BackOff(t, DigitRunEnd(t, q + 1), q + 2) ELSE 0
         IN IF alt1 # 0 THEN alt1 ELSE alt2
R24(t, p) ==
    IF LetterOrUs(At(t, p)) THEN 0
    ELSE LET q == IF At(t, p) = "dash" THEN p + 1 ELSE p
         IN IF IsDigit(At(t, q)) THEN BackOff(t, DigitRunEnd(t, q), q + 1) ELSE 0

R47(t, p) == IF IsWord(At(t, p)) THEN Name2RunEnd(t, p + 1) ELSE 0
R48(t, p) == IF At(t, p) \in {"semi", "colon", "lp", "rp", "dot"} THEN p + 1 ELSE 0
R49(t, p) == IF At(t, p) = "dash" THEN p + 1
             ELSE IF At(t, p) = "hash" /\ At(t, p + 1) = "dash" THEN p + 2 ELSE 0
R50(t, p) == IF At(t, p) \in {"eq", "lt"} THEN RunEnd(t, p, "eq") ELSE 0
R51(t, p) == IF InKind("op", At(t, p)) THEN RunEnd(t, p, "op") ELSE 0

\* the ordered rule table restricted to the alphabet: <<rule number, type>>
Table == << <<0, "Comment.Single.Hint">>, <<1, "Comment.Multiline.Hint">>, <<2, "Comment.Single">>, <<3, "Comment.Multiline">>,
            <<4, "Newline">>, <<5, "Whitespace">>, <<6, "Assignment">>, <<7, "Punctuation">>, <<8, "Wildcard">>,
            <<9, "Name">>, <<11, "Literal">>, <<12, "Placeholder">>, <<14, "Placeholder">>, <<15, "Command">>,
            <<17, "Name">>, <<18, "Name">>, <<19, "Name">>, <<20, "Name">>, <<23, "Float">>, <<24, "Integer">>,
            <<25, "String.Single">>, <<26, "String.Symbol">>, <<47, "Word">>, <<48, "Punctuation">>, <<49, "Operator">>,
            <<50, "Comparison">>, <<51, "Operator">> >>

Rule(k, t, p) ==
    CASE k = 0 -> R0(t, p) [] k = 1 -> R1(t, p) [] k = 2 -> R2(t, p) [] k = 3 -> R3(t, p) [] k = 4 -> R4(t, p)
      [] k = 5 -> R5(t, p) [] k = 6 -> R6(t, p) [] k = 7 -> R7(t, p) [] k = 8 -> R8(t, p) [] k = 9 -> R9(t, p)
      [] k = 11 -> R11(t, p) [] k = 12 -> R12(t, p) [] k = 14 -> R14(t, p) [] k = 15 -> R15(t, p) [] k = 17 -> R17(t, p)
      [] k = 18 -> R18(t, p) [] k = 19 -> R19(t, p) [] k = 20 -> R20(t, p) [] k = 23 -> R23(t, p) [] k = 24 -> R24(t, p)
      [] k = 25 -> R25(t, p) [] k = 26 -> R26(t, p) [] k = 47 -> R47(t, p) [] k = 48 -> R48(t, p) [] k = 49 -> R49(t, p)
      [] k = 50 -> R50(t, p) [] k = 51 -> R51(t, p)

RECURSIVE FirstMatch(_, _, _)
FirstMatch(t, p, i) == IF i > Len(Table) THEN [ty |-> "Error", rule |-> -1, hi |-> p]
                       ELSE LET e == Rule(Table[i][1], t, p) IN
                            IF e # 0 THEN [ty |-> Table[i][2], rule |-> Table[i][1], hi |-> e - 1]
                            ELSE FirstMatch(t, p, i + 1)

RECURSIVE LexFrom(_, _)
LexFrom(t, p) == IF p > Len(t) THEN <<>>
                 ELSE LET m == FirstMatch(t, p, 1) IN << [ty |-> m.ty, rule |-> m.rule, lo |-> p, hi |-> m.hi] >> \o LexFrom(t, m.hi + 1)
Lex(t) == LexFrom(t, 1)
=============================================================================
