----------------------------- MODULE LexGuards -----------------------------
(* Constant-free guards of the lexer scan loop, shared by LexScan (design   *)
(* model) and TraceLexScan (trace validation): one source of truth.         *)
EXTENDS Naturals, Integers
InTextN(n, p)               == 1 <= p /\ p <= n
ConsumeCountD(p, e, delta)  == e - p - 1 + delta      \* consume(iterable, m.end() - pos - 1)
NextPos(p, e, delta)        == p + 1 + ConsumeCountD(p, e, delta)
=============================================================================
