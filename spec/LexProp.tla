------------------------------- MODULE LexProp -------------------------------
(* Properties of the character-level lexer model (C01, C14, C05's lexical     *)
(* half) and the two generators that feed the replay into the real lexer.     *)
(*  Mode "strings": every text over Alphabet up to MaxLen (first symbols      *)
(*                  fixed by Prefix, so that runs can be partitioned)         *)
(*  Mode "regions": kind x left context x body x right context, the body      *)
(*                  built from BodyAlphabet without the region's terminator   *)
(***************************************************************************)
EXTENDS LexChars, TLC, Json, FiniteSets

CONSTANTS Mode, Alphabet, MaxLen, Prefix, Emit

RegionKinds == {"str", "dqname", "btname", "cmtm", "cmt1", "dollar", "dollartag",
                "cmt1cr", "hint1", "hint1cr", "hintm", "cmt1hash"}
Opener(k) == CASE k = "str" -> <<"sq">> [] k = "dqname" -> <<"dq">> [] k = "btname" -> <<"bt">>
               [] k = "cmtm" -> <<"slash", "star">> [] k = "cmt1" -> <<"dash", "dash">>
               [] k = "dollar" -> <<"dollar", "dollar">> [] k = "dollartag" -> <<"dollar", "a", "dollar">>
               [] k = "cmt1cr" -> <<"dash", "dash">> [] k \in {"hint1", "hint1cr"} -> <<"dash", "dash", "plus">>
               [] k = "hintm" -> <<"slash", "star", "plus">> [] k = "cmt1hash" -> <<"hash", "sp">>
Closer(k) == CASE k = "str" -> <<"sq">> [] k = "dqname" -> <<"dq">> [] k = "btname" -> <<"bt">>
               [] k = "cmtm" -> <<"star", "slash">> [] k = "cmt1" -> <<"lf">>
               [] k = "dollar" -> <<"dollar", "dollar">> [] k = "dollartag" -> <<"dollar", "a", "dollar">>
               [] k \in {"cmt1cr", "hint1cr"} -> <<"cr">> [] k \in {"hint1", "cmt1hash"} -> <<"lf">> [] k = "hintm" -> <<"star", "slash">>
TypeOf(k) == CASE k = "str" -> "String.Single" [] k = "dqname" -> "String.Symbol" [] k = "btname" -> "Name"
               [] k = "cmtm" -> "Comment.Multiline" [] k \in {"cmt1", "cmt1cr", "cmt1hash"} -> "Comment.Single"
               [] k \in {"hint1", "hint1cr"} -> "Comment.Single.Hint" [] k = "hintm" -> "Comment.Multiline.Hint"
               [] OTHER -> "Literal"
\* may character c follow body prefix b inside a region of kind k?  (the body must not contain the
\* region's terminator; quote-delimited regions also exclude backslash; hints are a different type)
\* length of the run of symbol q at the end of b
RECURSIVE TrailRun(_, _, _)
TrailRun(b, i, q) == IF i >= 1 /\ b[i] = q THEN 1 + TrailRun(b, i - 1, q) ELSE 0
\* inside a quote-delimited region the quote itself may only occur doubled
QuoteOk(b, c, q) == (c = q) \/ (TrailRun(b, Len(b), q) % 2 = 0)
BodyOk(k, b, c) ==
    LET n == Len(b) IN
    CASE k = "str"    -> c # "bs" /\ QuoteOk(b, c, "sq")
      [] k = "dqname" -> c # "bs" /\ QuoteOk(b, c, "dq")
      [] k = "btname" -> QuoteOk(b, c, "bt")
      [] k = "cmtm"   -> ~(n >= 1 /\ b[n] = "star" /\ c = "slash") /\ ~(n = 0 /\ c \in {"plus", "slash"})
      [] k = "hintm"  -> ~(n >= 1 /\ b[n] = "star" /\ c = "slash") /\ ~(n = 0 /\ c = "slash")
      [] k \in {"cmt1", "cmt1cr", "cmt1hash"} -> c \notin {"lf", "cr"} /\ ~(n = 0 /\ c = "plus")
      [] k \in {"hint1", "hint1cr"} -> c \notin {"lf", "cr"}
      [] k = "dollar" -> c # "dollar"
      [] k = "dollartag" -> c # "dollar"
BodyEndOk(k, b) == CASE k = "str" -> TrailRun(b, Len(b), "sq") % 2 = 0
                     [] k = "dqname" -> TrailRun(b, Len(b), "dq") % 2 = 0
                     [] k = "btname" -> TrailRun(b, Len(b), "bt") % 2 = 0
                     [] OTHER -> TRUE

LeftCtx  == { <<>>, <<"sp">>, <<"lf">>, <<"lp">>, <<"semi">>, <<"eq">>, <<"rp">>, <<"cr">> }
RightCtx == { <<>>, <<"sp">>, <<"lf">>, <<"rp">>, <<"semi">>, <<"eq">>, <<"lp">> }

VARIABLES text, done, kind, lctx, rctx
vars == <<text, done, kind, lctx, rctx>>

Init == /\ text = (IF Mode = "strings" THEN Prefix ELSE <<>>) /\ done = FALSE
        /\ IF Mode = "regions" THEN /\ kind \in RegionKinds /\ lctx \in LeftCtx /\ rctx \in RightCtx
                                    \* a region closed by a bare CR must not be followed by LF (CR LF is one line end)
                                    /\ (Closer(kind) = <<"cr">> => (rctx = <<>> \/ rctx[1] # "lf"))
                                    \* `# ` opens a comment only where `#` starts a token of its own
                                    /\ (kind = "cmt1hash" => (lctx = <<>> \/ lctx[Len(lctx)] \in {"sp", "lf", "cr", "lp", "semi", "rp"}))
           ELSE kind = "" /\ lctx = <<>> /\ rctx = <<>>
Add(c) == /\ ~done /\ Len(text) < MaxLen
          /\ (Mode = "regions" => BodyOk(kind, text, c))
          /\ text' = Append(text, c) /\ UNCHANGED <<done, kind, lctx, rctx>>
Stop == /\ ~done /\ (Mode = "regions" => BodyEndOk(kind, text))
        /\ done' = TRUE /\ UNCHANGED <<text, kind, lctx, rctx>>
Next == (\E c \in Alphabet : Add(c)) \/ Stop
Spec == Init /\ [][Next]_vars

Full == IF Mode = "regions" THEN lctx \o Opener(kind) \o text \o Closer(kind) \o rctx ELSE text
\* all properties are evaluated on one evaluation of the model lexer (LET values are cached by TLC)
TilesP(toks) ==
    /\ \A i \in 1..Len(toks) : toks[i].lo = (IF i = 1 THEN 1 ELSE toks[i - 1].hi + 1) /\ toks[i].hi >= toks[i].lo
    /\ (Full # <<>> => toks # <<>> /\ toks[Len(toks)].hi = Len(Full))
    /\ \A i \in 1..Len(toks) : toks[i].ty = "Error" => toks[i].hi = toks[i].lo
RegLo == Len(lctx) + 1
RegHi == IF Mode = "regions" THEN Len(lctx) + Len(Opener(kind)) + Len(text) + Len(Closer(kind)) ELSE 0
OpaqueP(toks) == Mode = "regions" =>
    \E i \in 1..Len(toks) : toks[i].lo = RegLo /\ toks[i].hi = RegHi /\ toks[i].ty = TypeOf(kind)
NoSemiP(toks) == Mode = "regions" =>
    ~\E i \in 1..Len(toks) : toks[i].ty = "Punctuation" /\ toks[i].lo > RegLo /\ toks[i].hi < RegHi
PrintP(toks) == Emit => PrintT("@@" \o ToJson([text |-> Full, kind |-> kind, lo |-> RegLo, hi |-> RegHi,
                                  toks |-> [i \in 1..Len(toks) |-> <<toks[i].ty, toks[i].hi, toks[i].rule>>]]))

\* C01 on the model (tokens tile the text, Error = one character), C14 (the region is exactly one
\* token of its type whatever body and context), C05's lexical half (no `;` token inside a region)
ModelTiles   == done => LET toks == Lex(Full) IN TilesP(toks)
RegionOpaque == done => LET toks == Lex(Full) IN OpaqueP(toks)
NoSemiInside == done => LET toks == Lex(Full) IN NoSemiP(toks)
AllProps == done => LET toks == Lex(Full) IN
               /\ Assert(TilesP(toks), <<"ModelTiles violated", Full>>)
               /\ Assert(OpaqueP(toks), <<"RegionOpaque violated", kind, Full>>)
               /\ Assert(NoSemiP(toks), <<"NoSemiInside violated", kind, Full>>)
               /\ PrintP(toks)
=============================================================================
