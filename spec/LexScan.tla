----------------------------- MODULE LexScan -----------------------------
(* The scan loop of sqlparse.lexer.Lexer.get_tokens (lexer.py:137-152),     *)
(* implementation-shaped:                                                    *)
(*                                                                           *)
(*   iterable = enumerate(text)                                              *)
(*   for pos, char in iterable:                                              *)
(*       for rexmatch, action in self._SQL_REGEX:   -- first match wins      *)
(*           m = rexmatch(text, pos)                                          *)
(*           if not m: continue                                              *)
(*           yield action, m.group()                                         *)
(*           consume(iterable, m.end() - pos - 1)   -- islice(n<0) raises    *)
(*           break                                                           *)
(*       else: yield Error, char                                             *)
(*                                                                           *)
(* Positions are 1-based here (pos = index of the next unscanned character). *)
(* What a rule matches is abstracted to its width interval extracted from    *)
(* the working tree's rule table (sre getwidth()): the model explores EVERY  *)
(* outcome MatchEnd could have, so the loop is verified for any rule table   *)
(* with those widths.  A rule of minimum width 0 makes the consume() count   *)
(* negative: status "crash".                                                 *)
(***************************************************************************)
EXTENDS Naturals, Integers, Sequences, FiniteSets, LexGuards

CONSTANTS
    N,          \* length of the text
    NRules,     \* number of rules in the table
    MinW,       \* MinW[r] : minimum match width of rule r   (function 1..NRules -> Nat)
    MaxW,       \* MaxW[r] : maximum width (capped)
    SkipDelta   \* the code consumes (end - pos - 1 + SkipDelta) further items; 0 in the real code

VARIABLES pos,      \* next position handed out by enumerate()
          out,      \* emitted tokens: sequence of [lo, hi, err]
          status    \* "run" | "done" | "crash"

vars == <<pos, out, status>>

Init == pos = 1 /\ out = <<>> /\ status = "run"

\* --- guards shared with the trace specification (single source of truth) ---
InText(p)            == InTextN(N, p)
WidthOk(r, p, e)     == /\ e - p >= MinW[r]
                        /\ e - p <= MaxW[r]
                        /\ e <= N + 1
ConsumeCount(p, e)   == ConsumeCountD(p, e, SkipDelta)

\* rule r matches at pos and ends before e (exclusive end, like m.end()+1 in 1-based)
Match(r, e) ==
    /\ status = "run" /\ InText(pos)
    /\ WidthOk(r, pos, e)
    /\ out' = Append(out, [lo |-> pos, hi |-> e - 1, err |-> FALSE])
    /\ IF ConsumeCount(pos, e) < 0
         THEN status' = "crash" /\ pos' = pos      \* ValueError from islice
         ELSE /\ pos' = pos + 1 + ConsumeCount(pos, e)
              /\ status' = IF pos' > N THEN "done" ELSE "run"

\* no rule matched: one-character Error token, iterator advances by one
ErrorChar ==
    /\ status = "run" /\ InText(pos)
    /\ out' = Append(out, [lo |-> pos, hi |-> pos, err |-> TRUE])
    /\ pos' = pos + 1
    /\ status' = IF pos' > N THEN "done" ELSE "run"

Finish == status = "run" /\ pos > N /\ status' = "done" /\ UNCHANGED <<pos, out>>

Next == \/ \E r \in 1..NRules, e \in 1..(N + 1) : Match(r, e)
        \/ ErrorChar
        \/ Finish

Spec     == Init /\ [][Next]_vars
FairSpec == Spec /\ WF_vars(Next)

-----------------------------------------------------------------------------
\* Properties (C01 at design level)

\* tokens tile [1, pos): consecutive, no gap, no overlap
Tiles ==
    /\ \A i \in 1..Len(out) : out[i].lo = (IF i = 1 THEN 1 ELSE out[i-1].hi + 1)
    /\ status # "crash" =>
         (IF out = <<>> THEN pos = 1 ELSE pos = out[Len(out)].hi + 1)

NonEmptyTok == status # "crash" => \A i \in 1..Len(out) : out[i].hi >= out[i].lo

ErrorIsOneChar == \A i \in 1..Len(out) : out[i].err => out[i].hi = out[i].lo

NoCrash == status # "crash"

NoOverrun == pos <= N + 1

Complete == status = "done" =>
              /\ pos = N + 1
              /\ (N > 0 => out # <<>> /\ out[Len(out)].hi = N)

Progress == [][pos' > pos \/ status' # "run"]_vars

Terminates == <>(status \in {"done", "crash"})
=============================================================================
