----------------------------- MODULE LexerInit -----------------------------
(* Creation and initialisation of the process-wide default lexer             *)
(* (sqlparse/lexer.py:27-28, 48-92), threads x steps:                        *)
(*                                                                           *)
(*   def get_default_instance(cls):                                          *)
(*       with cls._lock:                                     -- Acquire      *)
(*           if cls._default_instance is None:               -- Test         *)
(*               cls._default_instance = cls()               -- Create (published at once,    *)
(*                                                              the object has no attributes) *)
(*               cls._default_instance.default_initialization()                               *)
(*                   clear():  _SQL_REGEX = [] ; _keywords = []   -- ClearRegex, ClearKw      *)
(*                   set_SQL_REGEX(...)                           -- SetRegex                 *)
(*                   add_keywords(...) x NDicts                   -- AddKw                    *)
(*       return cls._default_instance                        -- Release, Return               *)
(*   ... get_tokens / is_keyword read _SQL_REGEX, _keywords  -- Use                           *)
(*                                                                           *)
(* UseLock = FALSE is the lock-free skeleton (the pre-0.5.0 race); it must   *)
(* violate UseSeesComplete (vacuity guard) and supplies the superset of      *)
(* interleavings the schedule replay draws from.                             *)
(***************************************************************************)
EXTENDS Naturals, FiniteSets, Sequences

CONSTANTS Threads, NDicts, UseLock

VARIABLES pc,        \* pc[t] in {"start","test","create","clearR","clearK","setR","addK","release","return","use","done"}
          owner,     \* lock owner or "none"
          inst,      \* "none" | "obj"
          hasRegex,  \* attribute _SQL_REGEX exists
          hasKw,     \* attribute _keywords exists
          regexSet,  \* _SQL_REGEX is the compiled rule list
          nDicts,    \* len(_keywords)
          mine,      \* mine[t]: what get_default_instance returned to t
          creators   \* set of threads that executed Create
vars == <<pc, owner, inst, hasRegex, hasKw, regexSet, nDicts, mine, creators>>

Init == /\ pc = [t \in Threads |-> "start"] /\ owner = "none" /\ inst = "none"
        /\ hasRegex = FALSE /\ hasKw = FALSE /\ regexSet = FALSE /\ nDicts = 0
        /\ mine = [t \in Threads |-> "none"] /\ creators = {}

Goto(t, l) == pc' = [pc EXCEPT ![t] = l]
Holds(t) == ~UseLock \/ owner = t

Acquire(t) == /\ pc[t] = "start" /\ (~UseLock \/ owner = "none")
              /\ owner' = IF UseLock THEN t ELSE owner
              /\ Goto(t, "test") /\ UNCHANGED <<inst, hasRegex, hasKw, regexSet, nDicts, mine, creators>>
Test(t) == /\ pc[t] = "test" /\ Holds(t)
           /\ Goto(t, IF inst = "none" THEN "create" ELSE "release")
           /\ UNCHANGED <<owner, inst, hasRegex, hasKw, regexSet, nDicts, mine, creators>>
Create(t) == /\ pc[t] = "create" /\ Holds(t)
             /\ inst' = "obj" /\ hasRegex' = FALSE /\ hasKw' = FALSE /\ regexSet' = FALSE /\ nDicts' = 0
             /\ creators' = creators \cup {t}
             /\ Goto(t, "clearR") /\ UNCHANGED <<owner, mine>>
ClearR(t) == /\ pc[t] = "clearR" /\ Holds(t)
             /\ hasRegex' = TRUE /\ regexSet' = FALSE
             /\ Goto(t, "clearK") /\ UNCHANGED <<owner, inst, hasKw, nDicts, mine, creators>>
ClearK(t) == /\ pc[t] = "clearK" /\ Holds(t)
             /\ hasKw' = TRUE /\ nDicts' = 0
             /\ Goto(t, "setR") /\ UNCHANGED <<owner, inst, hasRegex, regexSet, mine, creators>>
SetR(t) == /\ pc[t] = "setR" /\ Holds(t)
           /\ regexSet' = TRUE /\ hasRegex' = TRUE
           /\ Goto(t, "addK") /\ UNCHANGED <<owner, inst, hasKw, nDicts, mine, creators>>
AddK(t) == /\ pc[t] = "addK" /\ Holds(t) /\ nDicts < NDicts
           /\ nDicts' = nDicts + 1
           /\ Goto(t, IF nDicts + 1 = NDicts THEN "release" ELSE "addK")
           /\ UNCHANGED <<owner, inst, hasRegex, hasKw, regexSet, mine, creators>>
Release(t) == /\ pc[t] = "release" /\ Holds(t)
              /\ owner' = IF UseLock THEN "none" ELSE owner
              /\ Goto(t, "return") /\ UNCHANGED <<inst, hasRegex, hasKw, regexSet, nDicts, mine, creators>>
Return(t) == /\ pc[t] = "return"
             /\ mine' = [mine EXCEPT ![t] = inst]
             /\ Goto(t, "use") /\ UNCHANGED <<owner, inst, hasRegex, hasKw, regexSet, nDicts, creators>>
Use(t) == /\ pc[t] = "use"
          /\ Goto(t, "done") /\ UNCHANGED <<owner, inst, hasRegex, hasKw, regexSet, nDicts, mine, creators>>

Step(t) == Acquire(t) \/ Test(t) \/ Create(t) \/ ClearR(t) \/ ClearK(t) \/ SetR(t) \/ AddK(t)
           \/ Release(t) \/ Return(t) \/ Use(t)
Next == \E t \in Threads : Step(t)
Spec == Init /\ [][Next]_vars
FairSpec == Spec /\ \A t \in Threads : WF_vars(Step(t))

Complete == inst = "obj" /\ hasRegex /\ hasKw /\ regexSet /\ nDicts = NDicts

\* C20: every thread that got an instance back works with a completely initialised lexer
UseSeesComplete == \A t \in Threads : pc[t] = "use" => (mine[t] = "obj" /\ Complete)
AtMostOneCreate == Cardinality(creators) <= 1
MutualExclusion == UseLock => Cardinality({ t \in Threads : pc[t] \in {"test", "create", "clearR", "clearK", "setR", "addK", "release"} }) <= 1
AllFinish == <>(\A t \in Threads : pc[t] = "done")
=============================================================================
