----------------------------- MODULE LexerInit -----------------------------
(* Creation and initialisation of the process-wide default lexer             *)
(* (sqlparse/lexer.py:27-28, 48-95), threads x steps:                        *)
(*                                                                           *)
(*   def get_default_instance(cls):                                          *)
(*       with cls._lock:                                     -- Acquire      *)
(*           if cls._default_instance is None:               -- Test         *)
(*               instance = cls()                            -- Create (private object, no attributes) *)
(*               instance.default_initialization()                                            *)
(*                   clear():  _SQL_REGEX = [] ; _keywords = []   -- ClearRegex, ClearKw      *)
(*                   set_SQL_REGEX(...)                           -- SetRegex                 *)
(*                   add_keywords(...) x NDicts                   -- AddKw                    *)
(*               cls._default_instance = instance            -- Publish                       *)
(*       return cls._default_instance                        -- Release, Return               *)
(*   ... get_tokens / is_keyword read _SQL_REGEX, _keywords  -- Use                           *)
(*                                                                           *)
(* Any step of the initialisation may FAIL (InitFail: RecursionError when    *)
(* the first call of a process is made on a nearly exhausted stack,          *)
(* MemoryError, ...): the `with` releases the lock and the call raises.      *)
(*                                                                           *)
(* Objects are named after the thread that created them.  Mutant switches    *)
(* (vacuity guards, and the two defects this code had):                      *)
(*   UseLock = FALSE       the lock-free skeleton (the pre-0.5.0 race)       *)
(*   PublishEarly = TRUE   `cls._default_instance = cls()` BEFORE the        *)
(*                         initialisation (the code before repair d. in      *)
(*                         DESIGN 0.4): a failed initialisation leaves a     *)
(*                         half-built singleton behind for every later call  *)
(***************************************************************************)
EXTENDS Naturals, FiniteSets, Sequences

CONSTANTS Threads, NDicts, UseLock, PublishEarly,
          MayFail        \* TRUE: InitFail is enabled

VARIABLES pc,        \* pc[t] in {"start","test","create","clearR","clearK","setR","addK","publish","release","return","use","done","failed"}
          owner,     \* lock owner or "none"
          inst,      \* "none" | the object (= creating thread) the class attribute points to
          attrs,     \* attrs[o] = [hasRegex, hasKw, regexSet, nDicts] of object o
          mine,      \* mine[t]: what get_default_instance returned to t
          creators,  \* set of threads that executed Create
          failing    \* failing[t]: t's initialisation raised, the exception is propagating
vars == <<pc, owner, inst, attrs, mine, creators, failing>>

Blank == [hasRegex |-> FALSE, hasKw |-> FALSE, regexSet |-> FALSE, nDicts |-> 0]

Init == /\ pc = [t \in Threads |-> "start"] /\ owner = "none" /\ inst = "none"
        /\ attrs = [t \in Threads |-> Blank]
        /\ mine = [t \in Threads |-> "none"] /\ creators = {} /\ failing = [t \in Threads |-> FALSE]

Goto(t, l) == pc' = [pc EXCEPT ![t] = l]
Holds(t) == ~UseLock \/ owner = t
Set(t, f, v) == attrs' = [attrs EXCEPT ![t][f] = v]

Acquire(t) == /\ pc[t] = "start" /\ (~UseLock \/ owner = "none")
              /\ owner' = IF UseLock THEN t ELSE owner
              /\ Goto(t, "test") /\ UNCHANGED <<inst, attrs, mine, creators, failing>>
Test(t) == /\ pc[t] = "test" /\ Holds(t)
           /\ Goto(t, IF inst = "none" THEN "create" ELSE "release")
           /\ UNCHANGED <<owner, inst, attrs, mine, creators, failing>>
Create(t) == /\ pc[t] = "create" /\ Holds(t)
             /\ attrs' = [attrs EXCEPT ![t] = Blank]
             /\ inst' = IF PublishEarly THEN t ELSE inst
             /\ creators' = creators \cup {t}
             /\ Goto(t, "clearR") /\ UNCHANGED <<owner, mine, failing>>
ClearR(t) == /\ pc[t] = "clearR" /\ Holds(t)
             /\ attrs' = [attrs EXCEPT ![t].hasRegex = TRUE, ![t].regexSet = FALSE]
             /\ Goto(t, "clearK") /\ UNCHANGED <<owner, inst, mine, creators, failing>>
ClearK(t) == /\ pc[t] = "clearK" /\ Holds(t)
             /\ attrs' = [attrs EXCEPT ![t].hasKw = TRUE, ![t].nDicts = 0]
             /\ Goto(t, "setR") /\ UNCHANGED <<owner, inst, mine, creators, failing>>
SetR(t) == /\ pc[t] = "setR" /\ Holds(t)
           /\ attrs' = [attrs EXCEPT ![t].regexSet = TRUE, ![t].hasRegex = TRUE]
           /\ Goto(t, "addK") /\ UNCHANGED <<owner, inst, mine, creators, failing>>
AddK(t) == /\ pc[t] = "addK" /\ Holds(t) /\ attrs[t].nDicts < NDicts
           /\ attrs' = [attrs EXCEPT ![t].nDicts = @ + 1]
           /\ Goto(t, IF attrs[t].nDicts + 1 = NDicts THEN (IF PublishEarly THEN "release" ELSE "publish") ELSE "addK")
           /\ UNCHANGED <<owner, inst, mine, creators, failing>>
Publish(t) == /\ pc[t] = "publish" /\ Holds(t)
              /\ inst' = t
              /\ Goto(t, "release") /\ UNCHANGED <<owner, attrs, mine, creators, failing>>
\* an exception inside the initialisation: control leaves the `with` block (lock released), nothing else happens
InitFail(t) == /\ MayFail /\ pc[t] \in {"clearR", "clearK", "setR", "addK"} /\ Holds(t)
               /\ failing' = [failing EXCEPT ![t] = TRUE]
               /\ Goto(t, "release") /\ UNCHANGED <<owner, inst, attrs, mine, creators>>
Release(t) == /\ pc[t] = "release" /\ Holds(t)
              /\ owner' = IF UseLock THEN "none" ELSE owner
              /\ Goto(t, IF failing[t] THEN "failed" ELSE "return")
              /\ UNCHANGED <<inst, attrs, mine, creators, failing>>
Return(t) == /\ pc[t] = "return"
             /\ mine' = [mine EXCEPT ![t] = inst]
             /\ Goto(t, "use") /\ UNCHANGED <<owner, inst, attrs, creators, failing>>
Use(t) == /\ pc[t] = "use"
          /\ Goto(t, "done") /\ UNCHANGED <<owner, inst, attrs, mine, creators, failing>>
\* the application catches the error of the failed call and calls the library again
Retry(t) == /\ pc[t] = "failed"
            /\ failing' = [failing EXCEPT ![t] = FALSE]
            /\ Goto(t, "start") /\ UNCHANGED <<owner, inst, attrs, mine, creators>>

Step(t) == Acquire(t) \/ Test(t) \/ Create(t) \/ ClearR(t) \/ ClearK(t) \/ SetR(t) \/ AddK(t) \/ Publish(t)
           \/ InitFail(t) \/ Release(t) \/ Return(t) \/ Use(t) \/ Retry(t)
Next == \E t \in Threads : Step(t)
Spec == Init /\ [][Next]_vars
FairSpec == Spec /\ \A t \in Threads : WF_vars(Acquire(t) \/ Test(t) \/ Create(t) \/ ClearR(t) \/ ClearK(t) \/ SetR(t) \/ AddK(t)
                                               \/ Publish(t) \/ Release(t) \/ Return(t) \/ Use(t))

CompleteObj(o) == o # "none" /\ attrs[o].hasRegex /\ attrs[o].hasKw /\ attrs[o].regexSet /\ attrs[o].nDicts = NDicts

\* C20: every thread that got an instance back works with a completely initialised lexer
UseSeesComplete == \A t \in Threads : pc[t] = "use" => CompleteObj(mine[t])
\* C15/C20: whenever no thread is inside the critical section, a published singleton is complete - also after a failed
\* initialisation ("a later call on ordinary input still works")
PublishedIsComplete == (inst # "none" /\ \A t \in Threads : pc[t] \notin {"test", "create", "clearR", "clearK", "setR", "addK", "publish", "release"})
                          => CompleteObj(inst)
\* without failures exactly one object is ever built
AtMostOneCreate == ~MayFail => Cardinality(creators) <= 1
MutualExclusion == UseLock => Cardinality({ t \in Threads : pc[t] \in {"test", "create", "clearR", "clearK", "setR", "addK", "publish", "release"} }) <= 1
AllFinish == <>(\A t \in Threads : pc[t] = "done")
=============================================================================
