------------------------------ MODULE MatchRef ------------------------------
(* C09 reference: the textbook stack matcher over a statement's token tags.  *)
(* Classes in the order of grouping.group; a later class is matched          *)
(* separately in the top-level sequence and inside the INTERIOR of each      *)
(* existing group (its own delimiters are not candidates), never across a    *)
(* group boundary.  Unmatched openers / closers stay ungrouped.              *)
(*                                                                           *)
(* tags: lp rp lb rb case end if endif for endloop begin | x ws cmt          *)
(***************************************************************************)
EXTENDS Naturals, Integers, Sequences, FiniteSets

Classes == << "SquareBrackets", "Parenthesis", "Case", "If", "For", "Begin" >>

OpenTag(c)  == CASE c = "SquareBrackets" -> "lb" [] c = "Parenthesis" -> "lp" [] c = "Case" -> "case"
                 [] c = "If" -> "if" [] c = "For" -> "for" [] c = "Begin" -> "begin"
CloseTag(c) == CASE c = "SquareBrackets" -> "rb" [] c = "Parenthesis" -> "rp" [] c = "Case" -> "end"
                 [] c = "If" -> "endif" [] c = "For" -> "endloop" [] c = "Begin" -> "end"

\* indices of container [lo, hi] (exclusive bounds) that are not inside a group nested in it
Direct(G, lo, hi) ==
    LET inner == { g \in G : lo < g.lo /\ g.hi < hi }
    IN SelectSeq([i \in 1..(hi - lo - 1) |-> lo + i],
                 LAMBDA i : ~\E g \in inner : g.lo <= i /\ i <= g.hi)

RECURSIVE Scan(_, _, _, _, _, _)
Scan(tags, cls, idxs, p, stack, acc) ==
    IF p > Len(idxs) THEN acc
    ELSE LET i == idxs[p] IN
         IF tags[i] = OpenTag(cls) THEN Scan(tags, cls, idxs, p + 1, Append(stack, i), acc)
         ELSE IF tags[i] = CloseTag(cls) /\ stack # <<>>
           THEN Scan(tags, cls, idxs, p + 1, SubSeq(stack, 1, Len(stack) - 1),
                     acc \cup { [cls |-> cls, lo |-> stack[Len(stack)], hi |-> i] })
           ELSE Scan(tags, cls, idxs, p + 1, stack, acc)

NewGroups(tags, cls, G) ==
    LET containers == { [lo |-> 0, hi |-> Len(tags) + 1] } \cup { [lo |-> g.lo, hi |-> g.hi] : g \in G }
    IN UNION { Scan(tags, cls, Direct(G, c.lo, c.hi), 1, <<>>, {}) : c \in containers }

RECURSIVE Run(_, _, _)
Run(tags, k, G) == IF k > Len(Classes) THEN G
                   ELSE Run(tags, k + 1, G \cup NewGroups(tags, Classes[k], G))

MatchRef(tags) == Run(tags, 1, {})

\* The variant the current code implements (finding C09-own-delimiters): when a later class
\* recurses into an existing group, that group's own delimiters ARE candidates.
DirectIncl(G, lo, hi) ==
    LET inner == { g \in G : lo <= g.lo /\ g.hi <= hi /\ ~(g.lo = lo /\ g.hi = hi) }
    IN SelectSeq([i \in 1..(hi - lo + 1) |-> lo + i - 1],
                 LAMBDA i : ~\E g \in inner : g.lo <= i /\ i <= g.hi)
NewGroupsIncl(tags, cls, G) ==
    LET containers == { [lo |-> 1, hi |-> Len(tags)] } \cup { [lo |-> g.lo, hi |-> g.hi] : g \in G }
    IN UNION { Scan(tags, cls, DirectIncl(G, c.lo, c.hi), 1, <<>>, {}) : c \in containers }
RECURSIVE RunIncl(_, _, _)
RunIncl(tags, k, G) == IF k > Len(Classes) THEN G
                       ELSE RunIncl(tags, k + 1, G \cup NewGroupsIncl(tags, Classes[k], G))
MatchImpl(tags) == RunIncl(tags, 1, {})
=============================================================================
