------------------------------ MODULE Options ------------------------------
(* sqlparse.formatter.validate_options + build_filter_stack, transcribed in   *)
(* code order (formatter.py:14-204).  An option set is a record of ABSTRACT   *)
(* values; Python maps them to concrete ones:                                  *)
(*   booleans : "unset" | "true" | "false" | "BAD"                            *)
(*   cases    : "unset" | "upper" | "lower" | "capitalize" | "BAD"            *)
(*   output   : "unset" | "sql" | "python" | "php" | "BAD"                    *)
(*   truncate : "unset" | "5" | "20" | "1" (rejected: <= 1) | "BAD"           *)
(*   width    : "unset" | "1" | "4" | "0" (rejected) | "BAD"                  *)
(*   wrap     : "unset" | "0" | "10" | "40" | "-1" (rejected) | "BAD"         *)
(* Validate returns the first failing option (code order) or "" and the       *)
(* derived settings; Stages gives the filter stack that format() then runs.   *)
(***************************************************************************)
EXTENDS Naturals, Sequences, FiniteSets, TLC, Json

BoolOpts == <<"strip_comments", "use_space_around_operators", "strip_whitespace", "indent_columns",
              "reindent", "reindent_aligned", "indent_after_first", "indent_tabs", "comma_first", "compact">>

\* code order of the checks in validate_options
Order == <<"keyword_case", "identifier_case", "output_format", "strip_comments",
           "use_space_around_operators", "strip_whitespace", "truncate_strings", "indent_columns",
           "reindent", "reindent_aligned", "indent_after_first", "indent_tabs", "indent_width",
           "wrap_after", "comma_first", "compact">>

BadValue0(name, v) ==
    CASE name \in {"keyword_case", "identifier_case", "output_format"} -> v = "BAD"
      [] name = "truncate_strings" -> v \in {"BAD", "1"}
      [] name = "indent_width"     -> v \in {"BAD", "0"}
      [] name = "wrap_after"       -> v \in {"BAD", "-1"}
      [] OTHER                      -> v = "BAD"

\* indent_columns=True overwrites options['reindent'] before it is validated, which masks a bad value
BadValue(name, o) == IF name = "reindent" /\ o.indent_columns = "true" THEN FALSE
                     ELSE BadValue0(name, o[name])

RECURSIVE FirstBadFrom(_, _)
FirstBadFrom(o, i) == IF i > Len(Order) THEN ""
                      ELSE IF BadValue(Order[i], o) THEN Order[i]
                      ELSE FirstBadFrom(o, i + 1)
FirstBad(o) == FirstBadFrom(o, 1)

IsTrue(o, n) == o[n] = "true"

\* derived settings (only meaningful when FirstBad(o) = "")
Reindent(o)  == IsTrue(o, "reindent") \/ IsTrue(o, "indent_columns")        \* indent_columns enforces reindent
StripWs(o)   == IsTrue(o, "strip_whitespace") \/ Reindent(o) \/ IsTrue(o, "reindent_aligned")
IndentChar(o) == IF IsTrue(o, "indent_tabs") THEN "tab" ELSE "blank"
Width(o)     == IF o.indent_width = "unset" THEN "2" ELSE o.indent_width
Wrap(o)      == IF o.wrap_after = "unset" THEN "0" ELSE o.wrap_after

\* build_filter_stack: ordered stage descriptors
Pre(o) ==
    (IF o.keyword_case \notin {"unset"} THEN << [f |-> "KeywordCaseFilter", a |-> o.keyword_case] >> ELSE <<>>)
    \o (IF o.identifier_case \notin {"unset"} THEN << [f |-> "IdentifierCaseFilter", a |-> o.identifier_case] >> ELSE <<>>)
    \o (IF o.truncate_strings \notin {"unset"} THEN << [f |-> "TruncateStringFilter", a |-> o.truncate_strings] >> ELSE <<>>)
Stmt(o) ==
    (IF IsTrue(o, "use_space_around_operators") THEN << [f |-> "SpacesAroundOperatorsFilter", a |-> ""] >> ELSE <<>>)
    \o (IF IsTrue(o, "strip_comments") THEN << [f |-> "StripCommentsFilter", a |-> ""] >> ELSE <<>>)
    \o (IF StripWs(o) THEN << [f |-> "StripWhitespaceFilter", a |-> ""] >> ELSE <<>>)
    \o (IF Reindent(o) THEN << [f |-> "ReindentFilter", a |-> IndentChar(o)] >> ELSE <<>>)
    \o (IF IsTrue(o, "reindent_aligned") THEN << [f |-> "AlignedIndentFilter", a |-> IndentChar(o)] >> ELSE <<>>)
Post(o) ==
    (IF o.output_format = "php" THEN << [f |-> "OutputPHPFilter", a |-> ""] >>
     ELSE IF o.output_format = "python" THEN << [f |-> "OutputPythonFilter", a |-> ""] >> ELSE <<>>)
    \o << [f |-> "SerializerUnicode", a |-> ""] >>
Grouping(o) == Stmt(o) # <<>>

\* stages that may only insert / delete / rewrite whitespace (C06)
LayoutStages == {"SpacesAroundOperatorsFilter", "StripWhitespaceFilter", "ReindentFilter", "AlignedIndentFilter",
                 "SerializerUnicode"}
TargetStages == {"KeywordCaseFilter", "IdentifierCaseFilter", "TruncateStringFilter", "StripCommentsFilter"}

----------------------------------------------------------------------------
\* enumeration machine: the option record is built one option at a time
CONSTANTS Domain,    \* function option-name -> set of abstract values to explore
          Emit

VARIABLES opt, k
vars == <<opt, k>>
Init == opt = [n \in {Order[i] : i \in 1..Len(Order)} \cup {"truncate_char"} |-> "unset"] /\ k = 1
Choose == /\ k <= Len(Order)
          /\ \E v \in Domain[Order[k]] : opt' = [opt EXCEPT ![Order[k]] = v]
          /\ k' = k + 1
Next == Choose
Spec == Init /\ [][Next]_vars

Complete == k = Len(Order) + 1

\* C06 design level: a layout-only option set yields layout stages only
LayoutOnly(o) == o.keyword_case = "unset" /\ o.identifier_case = "unset" /\ o.truncate_strings = "unset"
                 /\ ~IsTrue(o, "strip_comments") /\ o.output_format \in {"unset", "sql"}
LayoutStagesOnly ==
    (Complete /\ FirstBad(opt) = "" /\ LayoutOnly(opt)) =>
        /\ Pre(opt) = <<>>
        /\ \A i \in 1..Len(Stmt(opt)) : Stmt(opt)[i].f \in LayoutStages
        /\ \A i \in 1..Len(Post(opt)) : Post(opt)[i].f \in LayoutStages
\* reindent variants always run after whitespace stripping, comment stripping before it
StageOrder ==
    Complete => LET s == Stmt(opt) IN
        \A i, j \in 1..Len(s) :
            (s[i].f = "StripWhitespaceFilter" /\ s[j].f \in {"ReindentFilter", "AlignedIndentFilter"}) => i < j

PrintDone == (Emit /\ Complete) =>
    PrintT("@@" \o ToJson([opt |-> opt, bad |-> FirstBad(opt),
                            pre |-> Pre(opt), stmt |-> Stmt(opt), post |-> Post(opt), grouping |-> Grouping(opt),
                            width |-> Width(opt), wrap |-> Wrap(opt)]))
=============================================================================
