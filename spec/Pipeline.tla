------------------------------ MODULE Pipeline ------------------------------
(* FilterStack.run and its callers as a state machine (filter_stack.py:29-51, *)
(* __init__.py:23-72): which exception kinds can leave an entry point.        *)
(*                                                                           *)
(*   def run(self, sql, encoding=None):          -- a GENERATOR               *)
(*       try:                                                                 *)
(*           stream = lexer.tokenize(sql, encoding)             -- Lex        *)
(*           for f in self.preprocess: stream = f.process(stream)   -- Pre    *)
(*           stream = StatementSplitter().process(stream)       -- Split      *)
(*           for stmt in stream:                                              *)
(*               if self._grouping: stmt = grouping.group(stmt) -- Group      *)
(*               for f in self.stmtprocess: f.process(stmt)     -- Stmt       *)
(*               for f in self.postprocess: stmt = f.process(stmt)  -- Post   *)
(*               yield stmt                                     -- Yield      *)
(*       except RecursionError as err:                                        *)
(*           raise SQLParseError('Maximum recursion depth exceeded') from err *)
(*                                                                            *)
(*   parse = tuple(parsestream(..)) ; split = [str(stmt).strip() for stmt in  *)
(*   stack.run(..)] (str() runs in the CALLER while the generator is          *)
(*   suspended) ; format = validate_options, build, ''.join(stack.run(..))    *)
(*                                                                            *)
(* Faults: a stage that recurses may raise RecursionError (RaiseRec); any     *)
(* stage may raise another exception kind (RaiseOther) - the model does not   *)
(* say it cannot happen, it says where it would go.                           *)
(***************************************************************************)
EXTENDS Naturals, Sequences, FiniteSets, TLC, Json

CONSTANTS NStmts,        \* statements in the input (small)
          Emit

Apis == {"parse", "parsestream", "split", "format_layout", "format_tokens_only", "format_bad_option"}

\* stage lists (per statement part after the splitter), derived like build_filter_stack does
HasGrouping(a)  == a \in {"parse", "parsestream", "format_layout"}
PerStmt(a) == CASE a \in {"parse", "parsestream"} -> <<"Group">>
                [] a = "split"              -> <<"StmtFilter">>            \* StripTrailingSemicolon when asked
                [] a = "format_layout"      -> <<"Group", "StmtFilter", "Post">>
                [] a = "format_tokens_only" -> <<"Post">>
                [] OTHER                    -> <<>>
\* stages whose implementation recurses over the token tree (DESIGN Appendix C)
Recurses(st, a) == st \in {"Group", "StmtFilter", "Post"} /\ (st # "StmtFilter" \/ a # "split")
\* what the caller does with a yielded statement, outside the generator's try
CallerStep(a) == IF a = "split" THEN "CallerStr" ELSE "CallerCollect"
CallerCanRecurse(a) == FALSE     \* split() never groups: str(stmt) flattens a flat list (assumption checked by replay)

VARIABLES api, phase, si, ki, outcome, pending, log
vars == <<api, phase, si, ki, outcome, pending, log>>
\* phase: "call" | "validate" | "lex" | "pre" | "split" | "stmt" | "caller" | "end"
\* outcome: "" | "ok" | "SQLParseError" | "RecursionError" | "Other"
\* pending: exception in flight inside run(): "" | "rec" | "other"

Init == api \in Apis /\ phase = "call" /\ si = 0 /\ ki = 0 /\ outcome = "" /\ pending = "" /\ log = <<>>

Log(e) == log' = Append(log, e)

Call == /\ phase = "call"
        /\ phase' = IF api \in {"format_layout", "format_tokens_only", "format_bad_option"} THEN "validate" ELSE "lex"
        /\ Log("Call") /\ UNCHANGED <<api, si, ki, outcome, pending>>
ValidateOk == /\ phase = "validate" /\ api # "format_bad_option"
              /\ phase' = "lex" /\ Log("ValidateOk") /\ UNCHANGED <<api, si, ki, outcome, pending>>
ValidateFail == /\ phase = "validate" /\ api = "format_bad_option"
                /\ phase' = "end" /\ outcome' = "SQLParseError" /\ Log("ValidateFail")
                /\ UNCHANGED <<api, si, ki, pending>>
Lex == /\ phase = "lex" /\ pending = ""
       /\ phase' = "split" /\ Log("Lex") /\ UNCHANGED <<api, si, ki, outcome, pending>>
\* the splitter hands out the next statement or is exhausted
SplitNext == /\ phase = "split" /\ pending = ""
             /\ IF si < NStmts
                  THEN /\ si' = si + 1 /\ ki' = 1 /\ phase' = "stmt" /\ Log("Split")
                       /\ UNCHANGED <<outcome>>
                  ELSE /\ phase' = "end" /\ outcome' = "ok" /\ Log("Exhausted") /\ UNCHANGED <<si, ki>>
             /\ UNCHANGED <<api, pending>>
Stage == /\ phase = "stmt" /\ pending = "" /\ ki <= Len(PerStmt(api))
         /\ Log(PerStmt(api)[ki]) /\ ki' = ki + 1
         /\ UNCHANGED <<api, phase, si, outcome, pending>>
Yield == /\ phase = "stmt" /\ pending = "" /\ ki = Len(PerStmt(api)) + 1
         /\ phase' = "caller" /\ Log("Yield") /\ UNCHANGED <<api, si, ki, outcome, pending>>
Caller == /\ phase = "caller"
          /\ phase' = "split" /\ Log(CallerStep(api)) /\ UNCHANGED <<api, si, ki, outcome, pending>>

\* faults inside run(): in any stage of the generator
RaiseRec == /\ phase \in {"lex", "split", "stmt"} /\ pending = ""
            /\ (phase = "stmt" => (ki <= Len(PerStmt(api)) /\ Recurses(PerStmt(api)[ki], api)))
            /\ phase \in {"stmt"}                     \* lexing and splitting are iterative
            /\ pending' = "rec" /\ Log("RaiseRec") /\ UNCHANGED <<api, phase, si, ki, outcome>>
RaiseOther == /\ phase \in {"lex", "split", "stmt"} /\ pending = ""
              /\ pending' = "other" /\ Log("RaiseOther") /\ UNCHANGED <<api, phase, si, ki, outcome>>
\* the except clause of run()
Translate == /\ pending = "rec"
             /\ pending' = "" /\ phase' = "end" /\ outcome' = "SQLParseError" /\ Log("Translate")
             /\ UNCHANGED <<api, si, ki>>
Escape == /\ pending = "other"
          /\ pending' = "" /\ phase' = "end" /\ outcome' = "Other" /\ Log("Escape")
          /\ UNCHANGED <<api, si, ki>>
\* a RecursionError in the caller's own step is outside the try
CallerRec == /\ phase = "caller" /\ CallerCanRecurse(api)
             /\ phase' = "end" /\ outcome' = "RecursionError" /\ Log("CallerRec")
             /\ UNCHANGED <<api, si, ki, pending>>

Next == Call \/ ValidateOk \/ ValidateFail \/ Lex \/ SplitNext \/ Stage \/ Yield \/ Caller
        \/ RaiseRec \/ RaiseOther \/ Translate \/ Escape \/ CallerRec
Spec == Init /\ [][Next]_vars

\* C15: a RecursionError never leaves an entry point
NoRecursionErrorEscapes == outcome # "RecursionError"
\* C07 (design half): an invalid option is rejected before any lexing
RejectBeforeWork == (api = "format_bad_option" /\ phase = "end") => (outcome = "SQLParseError" /\ ~\E i \in 1..Len(log) : log[i] = "Lex")
\* where RecursionError can be raised it is translated
RecAlwaysTranslated == (pending = "rec") => ENABLED Translate
\* "Other" is reachable in the model only through RaiseOther: totality (no such raise exists) is C07's replay business
OutcomeKinds == outcome \in {"", "ok", "SQLParseError", "Other"}

\* emission of fault points for the fault-injection replay: (api, stage index, statement index)
PrintFaults == (Emit /\ pending = "rec") =>
                 PrintT("@@" \o ToJson([api |-> api, stage |-> PerStmt(api)[ki], stmt |-> si, k |-> ki]))
=============================================================================
