------------------------------ MODULE RegexNFA ------------------------------
(* C16: no lexical rule admits two different ways of matching the same        *)
(* repeated substring (exponential ambiguity, EDA).                           *)
(*                                                                            *)
(* For every rule r the harness extracts from the working tree's rule table   *)
(* a collapsed NFA: macro states and macro edges [p, q, e, cs] - from p,      *)
(* consuming one character of any class in cs, along the epsilon/choice path  *)
(* identified by e, to q.  Out[<<r, p>>] is the set of edges leaving p.       *)
(*                                                                            *)
(* The classical criterion: a rule is exponentially ambiguous iff some state  *)
(* `piv` has two DIFFERENT paths piv -w-> piv over the same word w.  This is  *)
(* reachability in the product automaton: `a` and `b` start in piv, move on   *)
(* the same character class along possibly different edges (`div` records     *)
(* that they differed) and must never both be back in piv with div = TRUE.    *)
(***************************************************************************)
EXTENDS Naturals, FiniteSets, Sequences, TLC

CONSTANTS Out,       \* function <<rule, state>> -> set of [q, e, cs]
          Pivots     \* set of <<rule, state>>

VARIABLE st
Init == \E x \in Pivots : st = [r |-> x[1], piv |-> x[2], a |-> x[2], b |-> x[2], div |-> FALSE, n |-> 0]

Bad(s) == s.div /\ s.n > 0 /\ s.a = s.piv /\ s.b = s.piv

EdgesOf(r, p) == IF <<r, p>> \in DOMAIN Out THEN Out[<<r, p>>] ELSE {}

Step == /\ ~Bad(st)
        /\ \E e1 \in EdgesOf(st.r, st.a), e2 \in EdgesOf(st.r, st.b) :
             /\ e1.cs \cap e2.cs # {}
             /\ st' = [st EXCEPT !.a = e1.q, !.b = e2.q, !.n = 1,
                                 !.div = (st.div \/ e1.e # e2.e)]
Spec == Init /\ [][Step]_st

NoEDA == ~Bad(st)
\* collect every ambiguous (rule, pivot) instead of stopping at the first
PrintEDA == Bad(st) => PrintT(<<"EDA", st.r, st.piv>>)
=============================================================================
