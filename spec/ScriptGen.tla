----------------------------- MODULE ScriptGen -----------------------------
(* Verification grammar at splitter granularity, as a pushdown *generator*:  *)
(* a stack of frames; every step emits one token (kind + label) permitted by *)
(* the top frame.  The stack is the reference monitor: it knows whether a    *)
(* `;` is inner (inside parentheses / a procedural body) or final.           *)
(*                                                                           *)
(* Frames                                                                    *)
(*   T0  between statements            P   plain statement, depth 0          *)
(*   R   inside ( )                    CX  CASE expression ... END           *)
(*   CH  CREATE FUNCTION/PROCEDURE/TRIGGER header                            *)
(*   DS/DS1/DS2 DECLARE section        B0  outermost BEGIN body              *)
(*   B   nested BEGIN body             S0/S simple body statement ... ;      *)
(*   IC  IF condition   IB  IF body ... END IF                               *)
(*   FH  FOR header     WH  WHILE header                                     *)
(*   LB  loop body ... END LOOP        WB  WHILE..DO body ... END WHILE      *)
(*   CS  CASE statement ... END CASE   CS2 after END, before CASE            *)
(*   ES  expects the inner `;`         CE  after the final END: expects `;`  *)
(*   DI  initialiser of a declaration (`v int := <expr> ;`)                  *)
(***************************************************************************)
EXTENDS Naturals, Integers, Sequences, FiniteSets

CONSTANTS Allow,     \* set of enabled constructs
          MaxDepth   \* bound on the frame stack

Gap == { [k |-> "ws", lab |-> "ws"], [k |-> "nl", lab |-> "nl"],
         [k |-> "cmt1", lab |-> "cmt1"], [k |-> "cmtm", lab |-> "cmtm"] }
GapNoCmt == { [k |-> "ws", lab |-> "ws"], [k |-> "nl", lab |-> "nl"] }

Tok(k, lab) == [k |-> k, lab |-> lab]

Top(stk)        == stk[Len(stk)]
Pop(stk)        == SubSeq(stk, 1, Len(stk) - 1)
Repl(stk, f)    == Append(Pop(stk), f)
Push(stk, f)    == Append(stk, f)
CanPush(stk)    == Len(stk) < MaxDepth

Mv(t, st, fin)  == [t |-> t, st |-> st, fin |-> fin]
Stay(stk, toks) == { Mv(t, stk, FALSE) : t \in toks }

InBody(stk) == \E i \in 1..Len(stk) : stk[i] = "B0"
\* inside the header of a CREATE with a body (parameter list, trigger WHEN clause, DECLARE initialiser): before any BEGIN
InHeader(stk) == \E i \in 1..Len(stk) : stk[i] \in {"CH", "DI", "DI0"}

\* statements that may start inside a body-like frame
BodyStarts(stk) ==
    (IF CanPush(stk) THEN
       { Mv(Tok("other", "name"), Push(stk, "S0"), FALSE),
         Mv(Tok("kw", "dml"), Push(stk, "S"), FALSE) }         \* a DML / DDL statement inside a body: delete ...; drop ...; truncate ...;
       \cup (IF "if" \in Allow THEN { Mv(Tok("if", "if"), Push(stk, "IC"), FALSE) } ELSE {})
       \cup (IF "for" \in Allow THEN { Mv(Tok("for", "for"), Push(stk, "FH"), FALSE) } ELSE {})
       \cup (IF "whileloop" \in Allow \/ "whiledo" \in Allow THEN { Mv(Tok("while", "while"), Push(stk, "WH"), FALSE) } ELSE {})
       \cup (IF "loop" \in Allow THEN { Mv(Tok("kw", "loop"), Push(stk, "LB"), FALSE) } ELSE {})
       \cup (IF "casestmt" \in Allow THEN { Mv(Tok("case", "case"), Push(stk, "CS"), FALSE) } ELSE {})
       \cup (IF "nestedbegin" \in Allow THEN { Mv(Tok("begin", "begin"), Push(stk, "B"), FALSE) } ELSE {})
     ELSE {})
    \cup Stay(stk, Gap)

\* expression-level content allowed in P / R / CX / S
Expr(stk) ==
    Stay(stk, { Tok("other", "name"), Tok("other", "num"), Tok("other", "str"),
                Tok("kw", "kw"), Tok("ws", "ws") })
    \* IF / FOR outside procedural bodies: CREATE TABLE IF NOT EXISTS, DROP ... IF EXISTS, SELECT ... FOR UPDATE
    \cup (IF "plainkw" \in Allow /\ Top(stk) \in {"P", "R"} THEN Stay(stk, { Tok("if", "if"), Tok("for", "for") }) ELSE {})
    \cup (IF CanPush(stk) THEN { Mv(Tok("lp", "lp"), Push(stk, "R"), FALSE) } ELSE {})
    \cup (IF CanPush(stk) /\ ("caseexpr" \in Allow \/ ("caseexpr_body" \in Allow /\ InBody(stk))
                             \/ ("caseexpr_header" \in Allow /\ InHeader(stk)))
            THEN { Mv(Tok("case", "case"), Push(stk, "CX"), FALSE) } ELSE {})

JunkToks == Gap \cup { Tok("other", "name"), Tok("other", "num"), Tok("other", "str"), Tok("kw", "kw"),
                        Tok("kw", "dml"), Tok("lp", "lp"), Tok("rp", "rp"), Tok("semi", "semi"),
                        Tok("create", "create"), Tok("declare", "declare"), Tok("begin", "begin"),
                        Tok("end", "end"), Tok("if", "if"), Tok("for", "for"), Tok("while", "while"),
                        Tok("case", "case"), Tok("endif", "endif"), Tok("endloop", "endloop"),
                        Tok("endwhile", "endwhile"), Tok("kw", "loop"), Tok("kw", "then"),
                        Tok("other", "assign"), Tok("other", "cmp"), Tok("go", "go") }

Moves(stk) ==
    LET f == Top(stk) IN
    CASE f = "T0" ->
           Stay(stk, Gap)
           \cup { Mv(Tok("other", "name"), Push(stk, "P"), FALSE),
                  Mv(Tok("kw", "dml"), Push(stk, "P"), FALSE) }
           \cup (IF "createplain" \in Allow THEN { Mv(Tok("create", "create"), Push(stk, "P"), FALSE) } ELSE {})
           \cup (IF "txbegin" \in Allow THEN { Mv(Tok("begin", "begin"), Push(stk, "P"), FALSE) } ELSE {})
           \cup (IF "junk" \in Allow THEN { Mv(t, Push(stk, "J"), FALSE) : t \in JunkToks } ELSE {})
           \cup (IF "proc" \in Allow THEN { Mv(Tok("create", "create"), Push(stk, "CH"), FALSE),
                                              Mv(Tok("create", "createorreplace"), Push(stk, "CH"), FALSE) } ELSE {})
      [] f = "J" -> Stay(stk, JunkToks)          \* arbitrary token sequences ("broken SQL")
      [] f = "P" ->
           Expr(stk) \cup Stay(stk, Gap)
           \cup { Mv(Tok("semi", "semi"), Pop(stk), TRUE) }
      [] f = "R" ->
           Expr(stk) \cup Stay(stk, Gap)
           \cup (IF "parensemi" \in Allow THEN Stay(stk, { Tok("semi", "semi") }) ELSE {})
           \cup { Mv(Tok("rp", "rp"), Pop(stk), FALSE) }
      [] f = "CX" ->
           Expr(stk) \cup Stay(stk, { Tok("kw", "when"), Tok("kw", "then"), Tok("kw", "else"), Tok("nl", "nl") })
           \cup { Mv(Tok("end", "end"), Pop(stk), FALSE) }
      [] f = "CH" ->
           Stay(stk, { Tok("kw", "function"), Tok("other", "name"), Tok("kw", "returns"),
                       Tok("kw", "as"), Tok("ws", "ws"), Tok("nl", "nl") })
           \cup (IF CanPush(stk) THEN { Mv(Tok("lp", "lp"), Push(stk, "R"), FALSE) } ELSE {})
           \cup (IF "declare" \in Allow THEN { Mv(Tok("declare", "declare"), Repl(stk, "DS"), FALSE) } ELSE {})
           \cup { Mv(Tok("begin", "begin"), Repl(stk, "B0"), FALSE) }
      [] f = "DS" ->       \* DECLARE section: at least one declaration `name type ;`
           Stay(stk, { Tok("ws", "ws"), Tok("nl", "nl") })
           \cup { Mv(Tok("other", "name"), Repl(stk, "DS1"), FALSE) }
      [] f = "DS1" ->
           Stay(stk, { Tok("other", "type"), Tok("ws", "ws") })
           \cup (IF "caseexpr_header" \in Allow THEN { Mv(Tok("other", "assign"), Repl(stk, "DI0"), FALSE) } ELSE {})
           \cup { Mv(Tok("semi", "semi"), Repl(stk, "DS2"), FALSE) }
      [] f = "DI0" -> { Mv(Tok("other", "name"), Repl(stk, "DI"), FALSE), Mv(Tok("other", "num"), Repl(stk, "DI"), FALSE),
                        Mv(Tok("other", "str"), Repl(stk, "DI"), FALSE), Mv(Tok("ws", "ws"), stk, FALSE) }     \* an initialiser has a value
                      \cup (IF CanPush(stk) THEN { Mv(Tok("case", "case"), Push(Repl(stk, "DI"), "CX"), FALSE),
                                                    Mv(Tok("lp", "lp"), Push(Repl(stk, "DI"), "R"), FALSE) } ELSE {})
      [] f = "DI" -> Expr(stk) \cup { Mv(Tok("semi", "semi"), Repl(stk, "DS2"), FALSE) }
      [] f = "DS2" ->
           Stay(stk, { Tok("ws", "ws"), Tok("nl", "nl") })
           \cup { Mv(Tok("other", "name"), Repl(stk, "DS1"), FALSE), Mv(Tok("begin", "begin"), Repl(stk, "B0"), FALSE) }
      [] f = "B0" -> BodyStarts(stk) \cup { Mv(Tok("end", "end"), Repl(stk, "CE"), FALSE) }
      [] f = "B"  -> BodyStarts(stk) \cup { Mv(Tok("end", "end"), Repl(stk, "ES"), FALSE) }
      [] f = "SA" -> { Mv(Tok("other", "name"), Repl(stk, "S"), FALSE), Mv(Tok("other", "num"), Repl(stk, "S"), FALSE),
                       Mv(Tok("other", "str"), Repl(stk, "S"), FALSE), Mv(Tok("ws", "ws"), stk, FALSE) }   \* an assignment has a right-hand side
      [] f = "S0" -> { Mv(Tok("other", "assign"), Repl(stk, "SA"), FALSE), Mv(Tok("ws", "ws"), stk, FALSE),
                       Mv(Tok("other", "name"), Repl(stk, "S"), FALSE), Mv(Tok("kw", "kw"), Repl(stk, "S"), FALSE),
                       Mv(Tok("semi", "semi"), Pop(stk), FALSE) }
      [] f = "S"  -> Expr(stk) \cup { Mv(Tok("semi", "semi"), Pop(stk), FALSE) }
      [] f = "IC" -> Stay(stk, { Tok("other", "name"), Tok("other", "cmp"), Tok("ws", "ws") })
                     \cup { Mv(Tok("kw", "then"), Repl(stk, "IB"), FALSE) }
      [] f = "IB" -> BodyStarts(stk) \cup Stay(stk, { Tok("kw", "else") })
                     \cup { Mv(Tok("endif", "endif"), Repl(stk, "ES"), FALSE) }
      [] f = "FH" -> Stay(stk, { Tok("other", "name"), Tok("kw", "in"), Tok("ws", "ws") })
                     \cup { Mv(Tok("kw", "loop"), Repl(stk, "LB"), FALSE) }
      [] f = "WH" -> Stay(stk, { Tok("other", "name"), Tok("other", "cmp"), Tok("ws", "ws") })
                     \cup (IF "whileloop" \in Allow THEN { Mv(Tok("kw", "loop"), Repl(stk, "LB"), FALSE) } ELSE {})
                     \cup (IF "whiledo" \in Allow THEN { Mv(Tok("kw", "do"), Repl(stk, "WB"), FALSE) } ELSE {})
      [] f = "LB" -> BodyStarts(stk) \cup { Mv(Tok("endloop", "endloop"), Repl(stk, "ES"), FALSE) }
      [] f = "WB" -> BodyStarts(stk) \cup { Mv(Tok("endwhile", "endwhile"), Repl(stk, "ES"), FALSE) }
      [] f = "CS" -> BodyStarts(stk) \cup Stay(stk, { Tok("kw", "when"), Tok("kw", "then"), Tok("kw", "else") })
                     \cup { Mv(Tok("end", "end"), Repl(stk, "CS2"), FALSE) }
      [] f = "CS2" -> Stay(stk, { Tok("ws", "ws") }) \cup { Mv(Tok("case", "case"), Repl(stk, "ES"), FALSE) }
      [] f = "ES" -> Stay(stk, { Tok("ws", "ws") }) \cup { Mv(Tok("semi", "semi"), Pop(stk), FALSE) }
      [] f = "CE" -> Stay(stk, { Tok("ws", "ws"), Tok("other", "name") })
                     \cup { Mv(Tok("semi", "semi"), Pop(stk), TRUE) }

\* moves that lead towards the end of the script (used once the soft length is reached,
\* so that random walks terminate in well-formed scripts)
Closing(stk) ==
    LET f == Top(stk)
        want == CASE f = "P" -> {"semi"} [] f = "R" -> {"rp"} [] f = "CX" -> {"end"}
                  [] f = "CH" -> {"begin"} [] f = "DS" -> {"name"} [] f = "DS1" -> {"semi"} [] f = "DI0" -> {"name"} [] f = "DI" -> {"semi"} [] f = "DS2" -> {"begin"} [] f = "B0" -> {"end"}
                  [] f = "B" -> {"end"} [] f = "S" -> {"semi"} [] f = "S0" -> {"semi"} [] f = "SA" -> {"name"} [] f = "IC" -> {"then"}
                  [] f = "IB" -> {"endif"} [] f = "FH" -> {"loop"} [] f = "WH" -> {"loop", "do"}
                  [] f = "LB" -> {"endloop"} [] f = "WB" -> {"endwhile"} [] f = "CS" -> {"end"}
                  [] f = "CS2" -> {"case"} [] f = "ES" -> {"semi"} [] f = "CE" -> {"semi"}
                  [] OTHER -> {}
    IN { m \in Moves(stk) : m.t.lab \in want }

\* the canonical completion of a script prefix: closing moves until the stack is empty
RECURSIVE Closure(_)
Closure(stk) ==
    IF Len(stk) = 1 \/ Top(stk) = "J" \/ Closing(stk) = {} THEN <<>>
    ELSE LET m == CHOOSE x \in Closing(stk) : TRUE
         IN <<[k |-> m.t.k, lab |-> m.t.lab, fin |-> m.fin]>> \o Closure(m.st)

\* a script may stop between statements, or inside an unterminated last plain statement
CanStop(stk) == stk = <<"T0">> \/ stk = <<"T0", "P">> \/ stk = <<"T0", "J">>

IsSignificant(k) == k \notin {"ws", "nl", "cmt1", "cmtm"}
=============================================================================
