------------------------------ MODULE Spelling ------------------------------
(* C11 at design level: every decision downstream of the lexer should depend *)
(* on a keyword's KIND only.  What can break that is a comparison on the     *)
(* spelled value, so this module models exactly the comparison SITES of the  *)
(* code: which projection of the spelling they look at and how they compare. *)
(*                                                                           *)
(* A spelling of a (multi-word) keyword = [words, gap, casing]:              *)
(*   gap    in {"blank", "blank2", "tab", "lf", "crlf"}  (between its words) *)
(*   casing in {"upper", "lower", "cap", "mixed"}                            *)
(* Projections the code uses:                                                *)
(*   raw        = value                      (gap and casing as written)     *)
(*   upperraw   = value.upper()              (gap as written)                *)
(*   normalized = Token.normalized           (upper, single blanks)          *)
(* Literals in the code are canonical: upper case, single blanks.            *)
(***************************************************************************)
EXTENDS Naturals, Sequences, FiniteSets, TLC, Json

Gaps    == {"blank", "blank2", "tab", "lf", "crlf"}
Casings == {"upper", "lower", "cap", "mixed"}

Canon(words) == [words |-> words, gap |-> "blank", casing |-> "upper"]
Proj(p, sp) ==
    CASE p = "raw"        -> sp
      [] p = "upperraw"   -> [sp EXCEPT !.casing = "upper"]
      [] p = "normalized" -> [sp EXCEPT !.casing = "upper", !.gap = "blank"]
      [] p = "rawfirst"   -> [words |-> <<sp.words[1]>>, gap |-> "blank", casing |-> sp.casing]   \* value.split()[0]
      [] p = "upperfirst" -> [words |-> <<sp.words[1]>>, gap |-> "blank", casing |-> "upper"]
      [] p = "lexer"      -> [sp EXCEPT !.casing = "upper", !.gap = "blank"]   \* IGNORECASE regex with \s+ between words

\* the sites, transcribed from the code (file:line in the comment column of DESIGN.md appendix)
Sites == {
  [name |-> "lexer multi-word keyword rules (\\s+, IGNORECASE)",        proj |-> "lexer",      kw |-> <<"ORDER", "BY">>],
  [name |-> "lexer END IF rule",                                         proj |-> "lexer",      kw |-> <<"END", "IF">>],
  [name |-> "splitter: unified in (END IF, END FOR, END WHILE)",          proj |-> "normalized", kw |-> <<"END", "IF">>],
  [name |-> "splitter: unified in (END IF, END FOR, END WHILE)",          proj |-> "normalized", kw |-> <<"END", "WHILE">>],
  [name |-> "splitter: unified == BEGIN / DECLARE / END / CASE / IF",     proj |-> "upperraw",   kw |-> <<"BEGIN">>],
  [name |-> "splitter: unified.startswith(CREATE)",                       proj |-> "upperraw",   kw |-> <<"CREATE">>],
  [name |-> "splitter: value.split()[0].upper() == GO",                   proj |-> "upperfirst", kw |-> <<"GO">>],
  [name |-> "Token.match on M_OPEN/M_CLOSE (Where, Having, If, For ...)", proj |-> "normalized", kw |-> <<"ORDER", "BY">>],
  [name |-> "Token.match on M_CLOSE of If",                               proj |-> "normalized", kw |-> <<"END", "IF">>],
  [name |-> "Token.match on M_CLOSE of For",                              proj |-> "normalized", kw |-> <<"END", "LOOP">>],
  [name |-> "Token.match on M_CLOSE of Where",                            proj |-> "normalized", kw |-> <<"UNION", "ALL">>],
  [name |-> "group_as: normalized == AS",                                 proj |-> "normalized", kw |-> <<"AS">>],
  [name |-> "group_functions: value.upper() == CREATE / TABLE / AS",      proj |-> "upperraw",   kw |-> <<"AS">>],
  [name |-> "reindent split_words regex on normalized",                   proj |-> "normalized", kw |-> <<"GROUP", "BY">>],
  [name |-> "reindent / aligned: normalized == BETWEEN",                  proj |-> "normalized", kw |-> <<"BETWEEN">>],
  [name |-> "get_type: normalized of DML/DDL",                            proj |-> "normalized", kw |-> <<"CREATE", "OR", "REPLACE">>]
}

SpellingsOf(words) == { [words |-> words, gap |-> g, casing |-> c] : g \in (IF Len(words) > 1 THEN Gaps ELSE {"blank"}), c \in Casings }
SiteResult(s, sp) == Proj(s.proj, sp) = Proj(s.proj, Canon(s.kw))

Sensitive(s) == \E a, b \in SpellingsOf(s.kw) : SiteResult(s, a) # SiteResult(s, b)

VARIABLE done
Init == done = FALSE
Next == ~done /\ done' = TRUE
Spec == Init /\ [][Next]_done

\* the design claim; every counterexample is a site to probe with real programs
NoSensitiveSite == \A s \in Sites : ~Sensitive(s)
PrintSensitive == done => \A s \in Sites : Sensitive(s) => PrintT("@@" \o ToJson([site |-> s.name, kw |-> s.kw, proj |-> s.proj]))
=============================================================================
