--------------------------- MODULE SplitLockstep ---------------------------
(* Lock-step composition (DESIGN 2.5): the generator ScriptGen emits one     *)
(* token per step; the implementation-shaped Splitter consumes it; the       *)
(* generator's stack is the reference monitor.  The script itself (`hist`)   *)
(* is hidden from the exhaustive runs by VIEW, so scripts of ANY length are  *)
(* covered, bounded only by the frame-stack depth.                           *)
(*                                                                           *)
(* Property (token half of C05 / C17): every significant token lands in the  *)
(* statement whose number is the count of FINAL semicolons before it; no     *)
(* split at an inner `;`, a split after each final one.                      *)
(***************************************************************************)
EXTENDS ScriptGen, Splitter, TLC, Json

CONSTANTS MaxLen,     \* hard bound on script length (emission runs; a big number with VIEW)
          SoftLen,    \* from this length on only closing moves are taken (scripts end well-formed)
          MinLen,     \* Stop only at or beyond this length
          Emit,       \* TRUE: print each finished script (S->C channel)
          ResetComplete  \* FALSE: mutant whose _reset() forgets one flag (vacuity guard for FreshAgrees)

VARIABLES stk, ss, d, bad, phase, hist, curAllWs, refSig, fresh
vars == <<stk, ss, d, bad, phase, hist, curAllWs, refSig, fresh>>
\*  fresh   = a Splitter started from scratch at the beginning of the current statement
\*            (what split(piece) does, C04): it must behave exactly like the running one

\*  d       = (#statements the splitter has yielded) - (#final semicolons seen)
\*  refSig  = a significant token has been seen since the last final `;`
\*  bad     = "" or the name of the clause violated by the last token

Init == /\ stk = <<"T0">> /\ ss = Reset /\ d = 0 /\ bad = "" /\ phase = "run"
        /\ hist = <<>> /\ curAllWs = TRUE /\ refSig = FALSE /\ fresh = Reset

Emitx(m) ==
    LET k  == m.t.k
        f0 == FeedStep(k, ss)
        \* the running splitter's reset, possibly incomplete (mutant)
        f  == IF f0.flush /\ ~ResetComplete
                THEN [flush |-> TRUE,
                      s |-> LET s1 == [Reset EXCEPT !.isCreate = ss.isCreate]
                                ch == Change(k, s1)
                                l2 == s1.level + ch.d
                            IN [ch.s EXCEPT !.level = l2,
                                            !.consumeWs = ((l2 <= 0 /\ k = "semi") \/ k = "go")]]
                ELSE f0
        g  == FeedStep(k, IF f0.flush THEN Reset ELSE fresh)
        d1 == IF f.flush THEN d + 1 ELSE d            \* splitter yielded before appending k
        d2 == IF m.fin THEN d1 - 1 ELSE d1            \* reference closes a statement after k
    IN /\ stk' = m.st
       /\ ss' = f.s
       /\ fresh' = g.s
       /\ d' = d2
       /\ bad' = IF IsSignificant(k) /\ d1 > 0 THEN "split-at-inner-position"
                 ELSE IF IsSignificant(k) /\ d1 < 0 THEN "missed-split"
                 ELSE ""
       /\ curAllWs' = ((IF f.flush THEN TRUE ELSE curAllWs) /\ IsWsTok(k))
       /\ refSig' = IF m.fin THEN FALSE ELSE (refSig \/ IsSignificant(k))
       /\ hist' = Append(hist, [k |-> k, lab |-> m.t.lab, fin |-> m.fin,
                                 stmt |-> d1 - d, flushed |-> f.flush,
                                 level |-> f.s.level])

Step == /\ phase = "run" /\ bad = "" /\ Len(hist) < MaxLen
        /\ \E m \in (IF Len(hist) >= SoftLen THEN Closing(stk) ELSE Moves(stk)) : Emitx(m)
        /\ UNCHANGED phase

\* end of input: Finish yields the pending statement unless it is whitespace only
Stop == /\ phase = "run" /\ bad = "" /\ CanStop(stk) /\ Len(hist) >= MinLen
        /\ phase' = "done"
        /\ LET pending == (hist # <<>>) /\ ~curAllWs       \* splitter yields one more
               d3 == IF pending THEN d + 1 ELSE d
               refPending == refSig                         \* reference: unterminated last statement
           IN bad' = IF refPending /\ d3 # 1 THEN "lost-or-extra-tail"
                     ELSE IF ~refPending /\ d3 > 1 THEN "extra-statement"
                     ELSE ""
              \* (~refPending /\ d3 = 1: a comment-only tail becomes its own piece - tolerated)
        /\ UNCHANGED <<stk, ss, d, hist, curAllWs, refSig, fresh>>

Next == Step \/ Stop
Spec == Init /\ [][Next]_vars

\* ---- properties ----------------------------------------------------------
Agree == bad = ""

\* C04, design level: re-splitting a piece is splitting from a fresh state
FreshAgrees == fresh = ss

View == <<stk, ss, d, bad, phase, curAllWs, refSig, fresh>>
\* path covers: the abstract state remembers the last one / two tokens as well, so the transition cover of that
\* graph contains every PAIR / TRIPLE of consecutive moves from every product state.  A change of the code that
\* alters what one move does (without adding state the model has) shows only on particular paths into a state.
LastLab(n) == [i \in 1..(IF Len(hist) < n THEN Len(hist) ELSE n) |-> hist[Len(hist) - (IF Len(hist) < n THEN Len(hist) ELSE n) + i].lab]
View1 == <<stk, ss, d, bad, phase, curAllWs, refSig, fresh, LastLab(1)>>
View2 == <<stk, ss, d, bad, phase, curAllWs, refSig, fresh, LastLab(2)>>

Bound == d \in -2..2 /\ ss.level \in -3..(MaxDepth + 2) /\ ss.beginDepth <= MaxDepth + 1 /\ ss.inCase <= MaxDepth + 1

PrintDone == (Emit /\ phase = "done") =>
               PrintT("@@" \o ToJson([hist |-> hist, bad |-> bad]))

\* state cover / transition cover of the lock-step product graph (S->C channel): under VIEW,
\* TLC reaches every distinct abstract state once, by a shortest script; that script, completed
\* by closing moves, is printed.  As ACTION_CONSTRAINT the same is printed for every transition.
CoverRec(h, st) == [hist |-> [i \in 1..Len(h) |-> [k |-> h[i].k, lab |-> h[i].lab, fin |-> h[i].fin]] \o Closure(st),
                    bad |-> ""]
PrintStateCover == (phase = "run" /\ bad = "") => PrintT("@@" \o ToJson(CoverRec(hist, stk)))
PrintTransCover == (phase' = "run" /\ bad' = "") => PrintT("@@" \o ToJson(CoverRec(hist', stk')))

\* design-level counterexamples are *collected*, not stopped at: a bad state is terminal
\* (Step/Stop need bad = ""), each one is printed with its script
PrintBad == (bad # "") => PrintT("@@" \o ToJson([hist |-> hist, bad |-> bad]))
=============================================================================
