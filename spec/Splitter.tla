----------------------------- MODULE Splitter -----------------------------
(* sqlparse.engine.statement_splitter.StatementSplitter, transcribed         *)
(* action-for-action.  One token kind is consumed per Feed step:             *)
(*                                                                           *)
(*   for ttype, value in stream:                                             *)
(*       if self.consume_ws and ttype not in (Whitespace, Comment.Single):   *)
(*           yield Statement(self.tokens); self._reset()        -- FlushReset*)
(*       self.level += self._change_splitlevel(ttype, value)    -- Change    *)
(*       self.tokens.append(Token(ttype, value))                             *)
(*       if (level <= 0 and `;`) or (Keyword and value.split()[0]=='GO'):    *)
(*           self.consume_ws = True                                          *)
(*   if self.tokens and not all whitespace: yield Statement(self.tokens)     *)
(*                                                                           *)
(* Token kinds = exactly the distinctions the code makes:                    *)
(*   lp rp semi      Punctuation ( ) ;                                       *)
(*   ws              Whitespace (one character; NOT Newline)                 *)
(*   nl              Whitespace.Newline  (is_whitespace, but not in EOS set) *)
(*   cmt1            Comment.Single        (in EOS set, not whitespace)      *)
(*   cmtm            Comment.Multiline, and both Hint comment types (not in  *)
(*                   the EOS tuple, not whitespace, not keyword)             *)
(*   create          Keyword.DDL whose upper value starts with CREATE        *)
(*   declare begin end if for while case   plain Keyword with that value     *)
(*   endif endwhile  Keyword `END IF` / `END WHILE` (single blank inside)    *)
(*   endloop         Keyword `END LOOP`  (no branch in the code: default 0)  *)
(*   go              Keyword whose value.split()[0] == 'GO' (upper case)     *)
(*   kw              any other token whose type is in Keyword                *)
(*   other           everything else                                         *)
(***************************************************************************)
EXTENDS Naturals, Integers, Sequences

Kinds == {"lp", "rp", "semi", "ws", "nl", "cmt1", "cmtm", "create", "declare",
          "begin", "end", "if", "for", "while", "case", "endif", "endwhile",
          "endloop", "go", "kw", "other"}

IsEos(k)   == k \in {"ws", "cmt1"}          \* EOS_TTYPE (tuple membership, see NOTE)
IsWsTok(k) == k \in {"ws", "nl"}            \* Token.is_whitespace

\* NOTE on EOS_TTYPE: `ttype not in (T.Whitespace, T.Comment.Single)` is a tuple
\* membership test (==), not the token-type `in`: Newline != Whitespace, so a
\* Newline token does flush.  Comment.Single.Hint != Comment.Single likewise.

\* the per-statement state of the real object
SplitState == [level : Int, isCreate : BOOLEAN, inDeclare : BOOLEAN,
               inCase : Nat, beginDepth : Nat, consumeWs : BOOLEAN]

Reset == [level |-> 0, isCreate |-> FALSE, inDeclare |-> FALSE,
          inCase |-> 0, beginDepth |-> 0, consumeWs |-> FALSE]

Max(a, b) == IF a >= b THEN a ELSE b

\* _change_splitlevel: returns [d, s] = level delta and updated flags
Change(k, s) ==
    CASE k = "lp"  -> [d |-> 1,  s |-> s]
      [] k = "rp"  -> [d |-> -1, s |-> s]
      [] k \in {"semi", "ws", "nl", "cmt1", "cmtm", "other"} -> [d |-> 0, s |-> s]
      [] k = "create" -> [d |-> 0, s |-> [s EXCEPT !.isCreate = TRUE]]
      [] k = "declare" ->
           IF s.isCreate /\ s.beginDepth = 0
             THEN [d |-> 1, s |-> [s EXCEPT !.inDeclare = TRUE]]
             ELSE [d |-> 0, s |-> s]
      [] k = "begin" ->
           IF s.inDeclare      \* the level raised by DECLARE becomes the level of the block
             THEN [d |-> 0, s |-> [s EXCEPT !.beginDepth = @ + 1, !.inDeclare = FALSE]]
             ELSE [d |-> IF s.isCreate THEN 1 ELSE 0,
                   s |-> [s EXCEPT !.beginDepth = @ + 1]]
      [] k = "end" ->
           IF s.inCase = 0
             THEN [d |-> IF s.isCreate /\ s.beginDepth > 0 THEN -1 ELSE 0,   \* only a raising BEGIN is closed
                   s |-> [s EXCEPT !.beginDepth = Max(0, @ - 1)]]
             ELSE [d |-> -1, s |-> [s EXCEPT !.inCase = @ - 1]]
      [] k \in {"if", "for", "while", "case"} ->
           IF s.isCreate /\ s.beginDepth > 0
             THEN [d |-> 1, s |-> IF k = "case" THEN [s EXCEPT !.inCase = @ + 1] ELSE s]
             ELSE [d |-> 0, s |-> s]
      [] k \in {"endif", "endwhile"} ->          \* lowers the level only where IF / FOR / WHILE raised it (repair in /repo)
           [d |-> IF s.isCreate /\ s.beginDepth > 0 THEN -1 ELSE 0, s |-> s]
      [] k \in {"endloop", "go", "kw"} -> [d |-> 0, s |-> s]

\* one iteration of the loop in process(); returns [flush, s]
\*   flush : a Statement was yielded *before* this token was appended
FeedStep(k, s0) ==
    LET doFlush == s0.consumeWs /\ ~IsEos(k)
        s1 == IF doFlush THEN Reset ELSE s0
        ch == Change(k, s1)
        l2 == s1.level + ch.d
        s2 == [ch.s EXCEPT !.level = l2,
                           !.consumeWs = (s1.consumeWs \/ (l2 <= 0 /\ k = "semi") \/ k = "go")]
    IN [flush |-> doFlush, s |-> s2]

\* Run the splitter over a whole kind sequence: sequence of statement index per token
\* (1-based), plus the number of statements yielded.  Used by replay oracles.
RECURSIVE RunFrom(_, _, _, _, _, _)
RunFrom(ks, i, s, nout, curAllWs, acc) ==
    IF i > Len(ks)
      THEN [idx |-> acc, n |-> IF acc # <<>> /\ ~curAllWs THEN nout + 1 ELSE nout,
            tailDropped |-> acc # <<>> /\ curAllWs /\ (nout + 1 = acc[Len(acc)])]
      ELSE LET f == FeedStep(ks[i], s)
               nout2 == IF f.flush THEN nout + 1 ELSE nout
               allWs2 == (IF f.flush THEN TRUE ELSE curAllWs) /\ IsWsTok(ks[i])
           IN RunFrom(ks, i + 1, f.s, nout2, allWs2, Append(acc, nout2 + 1))
Run(ks) == RunFrom(ks, 1, Reset, 0, TRUE, <<>>)
=============================================================================
