------------------------------- MODULE SqlGen -------------------------------
(* The verification grammar (DESIGN 4.6, Appendix G) as a derivation machine. *)
(* Behaviours are abstract SQL programs ANNOTATED with their intended         *)
(* structure: pseudo-terminals "<x" / ">x" open and close annotation spans    *)
(*   stmt:T  statement of get_type() T        id    object reference + alias  *)
(*           (idx: a reference in a context C12 does not name)                *)
(*   list    comma separated item list        item  one list item             *)
(*   where   WHERE clause extent              par   parenthesis               *)
(*   fn      function call    arg  argument   case  CASE expression           *)
(*   when/then/else  parts of a CASE          cmp   comparison  l/r operands  *)
(*   tl      typed literal                    br    array subscript           *)
(* Terminals are token labels; Python only maps labels to spellings and       *)
(* chooses what fills the gaps.                                               *)
(*                                                                            *)
(* Prods[nt] is a SEQUENCE of right-hand sides; alternative 1 is the minimal  *)
(* one, taken when the expansion budget is used up (guarantees termination).  *)
(***************************************************************************)
EXTENDS Naturals, Sequences, FiniteSets, TLC, Json

CONSTANTS Fuel,      \* nesting budget: a symbol deeper than this takes its minimal alternative
          MaxOut,    \* once this many symbols were emitted only minimal alternatives are taken
          Start,     \* start symbol
          Emit

Prods == [
  Script   |-> << <<"StmtT", "semi">>, <<"StmtT", "semi", "Script">>, <<"StmtT", "semi", "Script">>,
                  <<"StmtT", "go", "Script">>, <<"StmtT", "semi", "go", "Script">> >>,     \* T-SQL batches
  StmtT    |-> << <<"<stmt:SELECT", "Select", ">stmt">>,
                  <<"<stmt:INSERT", "Insert", ">stmt">>,
                  <<"<stmt:UPDATE", "Update", ">stmt">>,
                  <<"<stmt:DELETE", "Delete", ">stmt">>,
                  <<"<stmt:CREATE", "CreateTab", ">stmt">>,
                  <<"<stmt:SELECT", "with", "Ctes", "Select", ">stmt">>,
                  <<"<stmt:INSERT", "with", "Ctes", "Insert", ">stmt">>,
                  <<"<stmt:DROP", "drop", "table", "<idx", "Ref", ">idx", ">stmt">>,
                  <<"<stmt:UNKNOWN", "<par", "lp", "Select", "rp", ">par", ">stmt">>,      \* a parenthesised query as a statement
                  <<"<stmt:SELECT", "Select", ">stmt">>,
                  \* set operations between two queries that both have a WHERE (the budget rarely reaches SetOpt at the end of Select)
                  <<"<stmt:SELECT", "select", "star", "from", "<id", "Ref", ">id", "<where", "where", "Cond", ">where", "setop", "Select", ">stmt">> >>,
  Select   |-> << <<"select", "ItemsL", "FromOpt", "WhereOpt", "GroupOpt", "HavingOpt", "OrderOpt", "LimitOpt", "SetOpt">>,
                  <<"select", "distinct", "ItemsL", "FromOpt", "WhereOpt", "GroupOpt", "HavingOpt", "OrderOpt", "LimitOpt", "SetOpt">> >>,
  ItemsL   |-> << <<"<list", "Items", ">list">> >>,
  Items    |-> << <<"<item", "Item", ">item">>, <<"<item", "Item", ">item", "comma", "Items">>,
                  <<"<item", "Item", ">item", "comma", "Items">> >>,
  Item     |-> << <<"<id", "Ref", "AliasOpt", ">id">>, <<"Expr", "AliasOpt">>, <<"star">>,
                  <<"name", "dot", "star">>, <<"<id", "Ref", "AliasOpt", ">id">>, <<"Func", "AliasOpt">> >>,
  Ref      |-> << <<"<n", "Name", ">n">>, <<"<q", "Name", ">q", "dot", "<n", "Name", ">n">> >>,
  Name     |-> << <<"name">>, <<"dqname">>, <<"btname">>, <<"name">> >>,
  AliasOpt |-> << <<>>, <<"as", "<a", "alias", ">a">>, <<"<a", "alias", ">a">> >>,
  Expr     |-> << <<"Atom">>, <<"Atom", "op", "Expr">>, <<"<par", "lp", "Expr", "rp", ">par">>,
                  <<"<par", "lp", "Select", "rp", ">par">>, <<"Func">>, <<"Case">>,
                  <<"Ref", "dcolon", "typename">>, <<"TypedLit">>, <<"Ref", "<br", "lbr", "num", "rbr", ">br">>, <<"Atom">>,
                  <<"Ref", "<br", "lbr", "name", "colon", "name", "rbr", ">br">> >>,        \* array slice: a bare `:` token
  Atom     |-> << <<"Ref">>, <<"num">>, <<"str">>, <<"ph">>, <<"null">>, <<"Ref">>, <<"sign", "Ref">> >>,
  Lit      |-> << <<"num">>, <<"str">>, <<"ph">> >>,
  Func     |-> << <<"<fn", "fname", "<par", "lp", "Args", "rp", ">par", ">fn">>,
                  <<"<fn", "fname", "<par", "lp", "Args", "rp", ">par", "over", "<par", "lp", "partition", "by", "Ref", "rp", ">par", ">fn">> >>,
  Args     |-> << <<>>, <<"<arg", "Expr", ">arg">>, <<"<arg", "Expr", ">arg", "comma", "Args1">>, <<"star">> >>,
  Args1    |-> << <<"<arg", "Expr", ">arg">>, <<"<arg", "Expr", ">arg", "comma", "Args1">> >>,
  Case     |-> << <<"<case", "case", "Whens", "ElseOpt", "end", ">case">>,
                  <<"<case", "case", "<operand", "Atom", ">operand", "Whens", "ElseOpt", "end", ">case">> >>,
  Whens    |-> << <<"when", "<when", "Cond", ">when", "then", "<then", "Expr", ">then">>,
                  <<"when", "<when", "Cond", ">when", "then", "<then", "Expr", ">then", "Whens">> >>,
  ElseOpt  |-> << <<>>, <<"else", "<else", "Expr", ">else">> >>,
  TypedLit |-> << <<"<tl", "builtin", "str", ">tl">>, <<"<tl", "interval", "str", "unit", ">tl">> >>,
  Cond     |-> << <<"<cmp", "<l", "Atom", ">l", "cmpop", "<r", "Atom", ">r", ">cmp">>,
                  <<"Cond", "and", "Cond">>, <<"Cond", "or", "Cond">>, <<"not", "Cond">>,
                  <<"<par", "lp", "Cond", "rp", ">par">>,
                  <<"Ref", "between", "Lit", "and", "Lit">>,
                  <<"Ref", "in", "<par", "lp", "Lits", "rp", ">par">>,
                  <<"Ref", "is", "null">>, <<"Ref", "is", "notnull">>,
                  <<"<cmp", "<l", "Ref", ">l", "like", "<r", "str", ">r", ">cmp">>,
                  <<"<cmp", "<l", "Expr", ">l", "cmpop", "<r", "Expr", ">r", ">cmp">>,
                  <<"Ref", "in", "<par", "lp", "Select", "rp", ">par">> >>,
  Lits     |-> << <<"Lit">>, <<"Lit", "comma", "Lits">> >>,
  FromOpt  |-> << <<>>, <<"from", "<list", "Srcs", ">list", "Joins">>, <<"from", "<list", "Srcs", ">list", "Joins">> >>,
  Srcs     |-> << <<"<item", "Src", ">item">>, <<"<item", "Src", ">item", "comma", "Srcs">> >>,
  Src      |-> << <<"<id", "Ref", "AliasOpt", ">id">>, <<"<par", "lp", "Select", "rp", ">par", "AliasOpt">>,
                  <<"<id", "Ref", "AliasOpt", ">id">> >>,
  Joins    |-> << <<>>, <<"jointype", "<id", "Ref", "AliasOpt", ">id", "on", "Cond", "Joins">> >>,
  WhereOpt |-> << <<>>, <<"<where", "where", "Cond", ">where">>, <<"<where", "where", "Cond", ">where">> >>,
  GroupOpt |-> << <<>>, <<"groupby", "<list", "RefItems", ">list">> >>,
  RefItems |-> << <<"<item", "<idx", "Ref", ">idx", ">item">>, <<"<item", "<idx", "Ref", ">idx", ">item", "comma", "RefItems">> >>,
  HavingOpt |-> << <<>>, <<"having", "Cond">> >>,
  OrderOpt |-> << <<>>, <<"orderby", "<list", "OrdItems", ">list">> >>,
  OrdItems |-> << <<"<item", "Ord", ">item">>, <<"<item", "Ord", ">item", "comma", "OrdItems">> >>,
  Ord      |-> << <<"<idx", "Ref", ">idx">>, <<"<idx", "Ref", "orddir", ">idx">> >>,
  LimitOpt |-> << <<>>, <<"limit", "num">> >>,
  SetOpt   |-> << <<>>, <<"setop", "Select">> >>,
  Ctes     |-> << <<"Cte">>, <<"Cte", "comma", "Ctes">> >>,
  Cte      |-> << <<"name", "as", "<par", "lp", "Select", "rp", ">par">>,
                  <<"CteName", "<par", "lp", "ColNames", "rp", ">par", "as", "<par", "lp", "Select", "rp", ">par">>,   \* WITH "t"(n) AS (...)
                  <<"CteName", "as", "materialized", "<par", "lp", "Select", "rp", ">par">>,
                  <<"CteName", "as", "<par", "lp", "Select", "rp", ">par">> >>,
  CteName  |-> << <<"name">>, <<"dqname">>, <<"btname">> >>,
  ColNames |-> << <<"name">>, <<"name", "comma", "ColNames">> >>,
  Insert   |-> << <<"insert", "into", "<id", "Ref", ">id", "ColsOpt", "values", "Rows">>,
                  <<"insert", "into", "<id", "Ref", ">id", "ColsOpt", "Select">> >>,
  ColsOpt  |-> << <<>>, <<"<par", "lp", "<list", "RefItems", ">list", "rp", ">par">> >>,
  Rows     |-> << <<"Row">>, <<"Row", "comma", "Rows">> >>,
  Row      |-> << <<"<par", "lp", "Lits", "rp", ">par">> >>,
  Update   |-> << <<"update", "<id", "Ref", "AliasOpt", ">id", "set", "Assigns", "WhereOpt", "RetOpt">> >>,
  Assigns  |-> << <<"Assign">>, <<"Assign", "comma", "Assigns">> >>,
  Assign   |-> << <<"Ref", "eq", "Expr">> >>,
  RetOpt   |-> << <<>>, <<"returning", "<list", "RefItems", ">list">> >>,
  Delete   |-> << <<"delete", "from", "<id", "Ref", ">id", "WhereOpt">> >>,
  CreateTab |-> << <<"create", "table", "<idx", "Ref", ">idx", "<par", "lp", "ColDefs", "rp", ">par">>,
                   <<"create", "table", "<idx", "Ref", ">idx", "as", "Select">>,
                   <<"create", "table", "<idx", "Ref", ">idx", "<par", "lp", "ColNames", "rp", ">par", "as", "Select">> >>,   \* CTAS with a column list
  ColDefs  |-> << <<"ColDef">>, <<"ColDef", "comma", "ColDefs">> >>,
  ColDef   |-> << <<"name", "typename">>, <<"name", "typename", "notnull">>, <<"name", "typename", "primarykey">> >>,
  \* focused start symbols for individual properties
  RefProbe |-> << <<"<stmt:SELECT", "select", "<list", "PItems", ">list", "from", "<list", "Srcs", ">list", "Joins", "WhereOpt", ">stmt", "semi">>,
                  <<"<stmt:UPDATE", "update", "<id", "Ref", "AliasOpt", ">id", "set", "Assign", "WhereOpt", ">stmt", "semi">>,
                  <<"<stmt:INSERT", "insert", "into", "<id", "Ref", ">id", "values", "Row", ">stmt", "semi">>,
                  <<"<stmt:DELETE", "delete", "from", "<id", "Ref", ">id", "WhereOpt", ">stmt", "semi">> >>,
  PItems   |-> << <<"<item", "<id", "Ref", "AliasOpt", ">id", ">item">>,
                  <<"<item", "<id", "Ref", "AliasOpt", ">id", ">item", "comma", "PItems">> >>
]

NonTerminals == DOMAIN Prods

VARIABLES stk, out, fuel, done
vars == <<stk, out, fuel, done>>

\* stack entries are <<symbol, depth>>; `fuel` counts expansions (statistics only)
Init == stk = << <<Start, 0>> >> /\ out = <<>> /\ fuel = 0 /\ done = FALSE

EmitTerminal == /\ ~done /\ stk # <<>> /\ Head(stk)[1] \notin NonTerminals
                /\ out' = Append(out, Head(stk)[1]) /\ stk' = Tail(stk)
                /\ UNCHANGED <<fuel, done>>

Expand == /\ ~done /\ stk # <<>> /\ Head(stk)[1] \in NonTerminals
          /\ LET s == Head(stk)[1]  d == Head(stk)[2] IN
             \E p \in 1..Len(Prods[s]) :
               /\ ((d >= Fuel \/ Len(out) >= MaxOut) => p = 1)
               /\ stk' = [i \in 1..Len(Prods[s][p]) |-> <<Prods[s][p][i], d + 1>>] \o Tail(stk)
          /\ fuel' = fuel + 1
          /\ UNCHANGED <<out, done>>

Finish == ~done /\ stk = <<>> /\ done' = TRUE /\ UNCHANGED <<stk, out, fuel>>

Next == EmitTerminal \/ Expand \/ Finish
Spec == Init /\ [][Next]_vars

\* annotation markers are well nested in every finished program (checked by TLC)
IsOpen(s)  == s \in {"<idx", "<id", "<list", "<item", "<where", "<par", "<fn", "<arg", "<case", "<when", "<then", "<else",
                     "<operand", "<cmp", "<l", "<r", "<tl", "<br", "<n", "<q", "<a",
                     "<stmt:SELECT", "<stmt:INSERT", "<stmt:UPDATE", "<stmt:DELETE", "<stmt:CREATE", "<stmt:DROP", "<stmt:UNKNOWN"}
IsClose(s) == s \in {">idx", ">id", ">list", ">item", ">where", ">par", ">fn", ">arg", ">case", ">when", ">then", ">else",
                     ">operand", ">cmp", ">l", ">r", ">tl", ">br", ">n", ">q", ">a", ">stmt"}
RECURSIVE Depth(_, _, _)
Depth(s, i, d) == IF i > Len(s) THEN d
                  ELSE IF d < 0 THEN d
                  ELSE Depth(s, i + 1, IF IsOpen(s[i]) THEN d + 1 ELSE IF IsClose(s[i]) THEN d - 1 ELSE d)
WellNested == done => Depth(out, 1, 0) = 0

PrintDone == (Emit /\ done) => PrintT("@@" \o ToJson([out |-> out]))
=============================================================================
