------------------------------- MODULE StripWs -------------------------------
(* StripWhitespaceFilter on ONE token list (filters/others.py:82-123), the     *)
(* three per-class routines action for action:                                  *)
(*                                                                              *)
(*   _stripws_default:        last_was_ws = False ; is_first_char = True         *)
(*       for token in tokens: if ws: value = '' if last_was_ws or is_first_char  *)
(*                                           else ' '                            *)
(*                            last_was_ws = token.is_whitespace ; is_first_char = False *)
(*   _stripws_identifierlist: a whitespace RUN directly before a comma is        *)
(*       removed from the list (repair 3738fa4: the whole run), then default     *)
(*   _stripws_parenthesis:    pop whitespace at [1] and at [-2] while len > 2 ;  *)
(*       if tokens[-2] is a group: pop ITS trailing whitespace ; then default    *)
(*                                                                              *)
(* Token kinds: "w" whitespace, "x" any other leaf, "c" comma, "l" "(", "r" ")", *)
(* "g0" "g1" "g2" a sub-group with 0 / 1 / 2 trailing whitespace tokens          *)
(* (already processed: the filter works bottom-up).  The result is the list of   *)
(* <<kind, value>> with value "" / " " for whitespace, "." for anything else     *)
(* and the number of trailing blanks left in a sub-group.                        *)
(*                                                                              *)
(* Design level (C10 normal form of strip_whitespace, per list): rendered text   *)
(* has no leading blank, no two blanks in a row, no blank before a comma         *)
(* (identifier list), none behind "(" or before ")" (parenthesis).  Binding:     *)
(* every list up to MaxLen is replayed into the real filter (vlib/stripwsrun.py).*)
(***************************************************************************)
EXTENDS Naturals, Sequences, FiniteSets, TLC, Json

CONSTANTS MaxLen, Emit

Kinds == {"w", "x", "c", "l", "r", "g0", "g1", "g2"}
Classes == {"default", "identifierlist", "parenthesis"}
IsWs(k) == k = "w"
IsGroup(k) == k \in {"g0", "g1", "g2"}

\* _stripws_default on a list of kinds: values of the whitespace tokens
RECURSIVE DefaultFrom(_, _, _, _)
DefaultFrom(ks, i, lastWs, first) ==
    IF i > Len(ks) THEN <<>>
    ELSE LET k == ks[i]
             v == IF IsWs(k) THEN (IF lastWs \/ first THEN "" ELSE " ") ELSE "."
         IN <<<<k, v>>>> \o DefaultFrom(ks, i + 1, IsWs(k), FALSE)
Default(ks) == DefaultFrom(ks, 1, FALSE, TRUE)

\* identifier list: drop every whitespace run that is directly followed by a comma
RECURSIVE DropBeforeComma(_, _)
DropBeforeComma(ks, i) ==
    IF i > Len(ks) THEN <<>>
    ELSE IF IsWs(ks[i])
           THEN LET RECURSIVE RunEnd(_)
                    RunEnd(j) == IF j <= Len(ks) /\ IsWs(ks[j]) THEN RunEnd(j + 1) ELSE j
                    e == RunEnd(i)
                IN IF e <= Len(ks) /\ ks[e] = "c" THEN DropBeforeComma(ks, e)
                   ELSE SubSeq(ks, i, e - 1) \o DropBeforeComma(ks, e)
           ELSE <<ks[i]>> \o DropBeforeComma(ks, i + 1)

\* parenthesis: pops at position 2 and at position Len-1 while Len > 2, then the last inner group's trailing blanks
RECURSIVE PopFront(_), PopBack(_)
PopFront(ks) == IF Len(ks) > 2 /\ IsWs(ks[2]) THEN PopFront(<<ks[1]>> \o SubSeq(ks, 3, Len(ks))) ELSE ks
PopBack(ks)  == IF Len(ks) > 2 /\ IsWs(ks[Len(ks) - 1]) THEN PopBack(SubSeq(ks, 1, Len(ks) - 2) \o <<ks[Len(ks)]>>) ELSE ks
TrimInner(ks) == IF Len(ks) > 1 /\ IsGroup(ks[Len(ks) - 1]) THEN [ks EXCEPT ![Len(ks) - 1] = "g0"] ELSE ks

Result(cls, ks) ==
    CASE cls = "default" -> Default(ks)
      [] cls = "identifierlist" -> Default(DropBeforeComma(ks, 1))
      [] cls = "parenthesis" -> Default(TrimInner(PopBack(PopFront(ks))))

\* rendered text of a result: "." for leaves, " " / "" for whitespace, a sub-group renders as "." plus its trailing blanks
RECURSIVE Render(_, _)
Render(res, i) == IF i > Len(res) THEN <<>>
                  ELSE LET k == res[i][1]  v == res[i][2]
                       piece == IF IsWs(k) THEN (IF v = " " THEN <<" ">> ELSE <<>>)
                                ELSE IF k \in {"g1", "g2"} THEN <<".", " ">>     \* the sub-group's own pass left ONE blank of its trailing run
                                ELSE IF k = "c" THEN <<",">> ELSE IF k = "l" THEN <<"(">> ELSE IF k = "r" THEN <<")">> ELSE <<".">>
                       IN piece \o Render(res, i + 1)

VARIABLES cls, ks, done
vars == <<cls, ks, done>>
Init == cls \in Classes /\ ks = <<>> /\ done = FALSE
Add == ~done /\ Len(ks) < MaxLen /\ (\E k \in Kinds : ks' = Append(ks, k)) /\ UNCHANGED <<cls, done>>
Finish == ~done /\ done' = TRUE /\ UNCHANGED <<cls, ks>>
Next == Add \/ Finish
Spec == Init /\ [][Next]_vars

\* a real Parenthesis starts with "(" and ends with ")"; a real group neither starts nor ends in a way the grouping engine
\* cannot produce.  The normal forms are claimed for well-formed lists only; the binding replays ALL lists.
WellFormed == CASE cls = "parenthesis" -> Len(ks) >= 2 /\ ks[1] = "l" /\ ks[Len(ks)] = "r"
                                         /\ \A i \in 2..(Len(ks) - 1) : ks[i] \notin {"l", "r"}
                [] OTHER -> \A i \in 1..Len(ks) : ks[i] \notin {"l", "r"}
T == Render(Result(cls, ks), 1)
NoLeadingBlank == (done /\ WellFormed /\ T # <<>>) => T[1] # " "
\* (two blanks in a row can only come from a sub-group's own trailing blanks followed by a blank of this list)
NoDoubleBlank == (done /\ WellFormed /\ \A i \in 1..Len(ks) : ks[i] \notin {"g1", "g2"}) =>
                    \A i \in 1..(Len(T) - 1) : ~(T[i] = " " /\ T[i + 1] = " ")
NoBlankBeforeComma == (done /\ WellFormed /\ cls = "identifierlist" /\ \A i \in 1..Len(ks) : ks[i] \notin {"g1", "g2"}) =>
                    \A i \in 1..(Len(T) - 1) : ~(T[i] = " " /\ T[i + 1] = ",")
NoBlankInsideParens == (done /\ WellFormed /\ cls = "parenthesis") =>
                    \A i \in 1..(Len(T) - 1) : ~(T[i] = "(" /\ T[i + 1] = " ") /\ ~(T[i] = " " /\ T[i + 1] = ")")

PrintDone == (Emit /\ done /\ ks # <<>>) =>
    PrintT("@@" \o ToJson([cls |-> cls, ks |-> ks, res |-> [i \in 1..Len(Result(cls, ks)) |-> Result(cls, ks)[i]]]))
=============================================================================
