------------------------------- MODULE Text -------------------------------
(* Texts are sequences of code points (never JSON strings: NUL, lone         *)
(* surrogates).  Index-based recursive operators only (no SubSeq copying).   *)
EXTENDS Naturals, Integers, Sequences

\* Python str.strip() / str.isspace() set
IsWsChar(c) == \/ c \in 9..13 \/ c \in 28..32 \/ c = 133 \/ c = 160 \/ c = 5760
               \/ c \in 8192..8202 \/ c \in {8232, 8233, 8239, 8287, 12288}

RECURSIVE FirstNonWs(_, _)
FirstNonWs(t, i) == IF i > Len(t) THEN i ELSE IF IsWsChar(t[i]) THEN FirstNonWs(t, i + 1) ELSE i
RECURSIVE LastNonWs(_, _)
LastNonWs(t, i) == IF i < 1 THEN i ELSE IF IsWsChar(t[i]) THEN LastNonWs(t, i - 1) ELSE i

Strip(t) == LET a == FirstNonWs(t, 1) b == LastNonWs(t, Len(t)) IN
            IF a > b THEN <<>> ELSE SubSeq(t, a, b)

AllWsFrom(t, i) == FirstNonWs(t, i) > Len(t)

\* does p occur in t at position i ?
RECURSIVE MatchAt(_, _, _, _)
MatchAt(t, i, p, j) == IF j > Len(p) THEN TRUE
                       ELSE IF i + j - 1 > Len(t) THEN FALSE
                       ELSE IF t[i + j - 1] # p[j] THEN FALSE
                       ELSE MatchAt(t, i, p, j + 1)

\* t = ws* ps[1] ws* ps[2] ... ws*   (every piece non-empty and stripped)
RECURSIVE IsWsSeparated(_, _, _, _)
IsWsSeparated(t, i, ps, k) ==
    IF k > Len(ps) THEN AllWsFrom(t, i)
    ELSE LET a == FirstNonWs(t, i) IN
         /\ ps[k] # <<>>
         /\ MatchAt(t, a, ps[k], 1)
         /\ IsWsSeparated(t, a + Len(ps[k]), ps, k + 1)

RECURSIVE ConcatAll(_, _)
ConcatAll(ss, k) == IF k > Len(ss) THEN <<>> ELSE ss[k] \o ConcatAll(ss, k + 1)

IsPrefixAt(p, t) == Len(p) <= Len(t) /\ MatchAt(t, 1, p, 1)
=============================================================================
