----------------------------- MODULE TokenTree -----------------------------
(* The token tree of sqlparse.sql as an abstract structure, plus the         *)
(* navigation helpers of TokenList / Token transcribed as operators.         *)
(*                                                                           *)
(* A tree is a node table  N : Seq(Node),  node ids = indices, root given.   *)
(*   Node == [cls  : class name ("" for a leaf),                             *)
(*            kids : Seq(node id)           (<<>> for a leaf),               *)
(*            ptr  : node id of Token.parent (0 = None),                     *)
(*            val  : code points of Token.value (cached text for a group),   *)
(*            ty   : token type name ("" for a group),                       *)
(*            ws, cm : is_whitespace / is a comment (ttype in T.Comment or   *)
(*                     instance of sql.Comment),                             *)
(*            tag  : bracket/block delimiter tag (MatchRef)]                 *)
(***************************************************************************)
EXTENDS Naturals, Integers, Sequences, FiniteSets

IsLeaf(N, n)  == N[n].cls = ""
IsGroup(N, n) == N[n].cls # ""

RECURSIVE LeavesOf(_, _)
LeavesOf(N, n) ==
    IF IsLeaf(N, n) THEN <<n>>
    ELSE LET RECURSIVE Cat(_)
             Cat(i) == IF i > Len(N[n].kids) THEN <<>>
                       ELSE LeavesOf(N, N[n].kids[i]) \o Cat(i + 1)
         IN Cat(1)

RECURSIVE CatVals(_, _, _)
CatVals(N, ls, i) == IF i > Len(ls) THEN <<>> ELSE N[ls[i]].val \o CatVals(N, ls, i + 1)

TextOf(N, n) == IF IsLeaf(N, n) THEN N[n].val ELSE CatVals(N, LeavesOf(N, n), 1)

\* containment parent: the group whose kids list names n (0 if none)
ContParents(N, n) == { g \in 1..Len(N) : \E i \in 1..Len(N[g].kids) : N[g].kids[i] = n }
Occurrences(N, n) == Cardinality({ <<g, i>> \in (1..Len(N)) \X (1..Len(N)) :
                                     i <= Len(N[g].kids) /\ N[g].kids[i] = n })

\* ---- well-formedness (C03) ------------------------------------------------
OccursOnce(N, root) ==
    \A n \in 1..Len(N) : IF n = root THEN Occurrences(N, n) = 0 ELSE Occurrences(N, n) = 1
GroupsNonEmpty(N)   == \A n \in 1..Len(N) : IsGroup(N, n) => N[n].kids # <<>>
ParentPointers(N, root) ==
    /\ N[root].ptr = 0
    /\ \A g \in 1..Len(N) : \A i \in 1..Len(N[g].kids) : N[N[g].kids[i]].ptr = g
CachedValues(N)     == \A n \in 1..Len(N) : IsGroup(N, n) => N[n].val = TextOf(N, n)

\* ---- navigation helpers (sql.py) -------------------------------------------
\* all indices below are 0-based like in Python; kids sequences are 1-based
Skipped(N, c, skipWs, skipCm) == (skipWs /\ N[c].ws) \/ (skipCm /\ N[c].cm)

\* TokenList.token_next(idx, skip_ws, skip_cm): first child after idx not skipped;
\* result [i, n] with i = -1, n = 0 for (None, None)
TokenNext(N, g, idx, skipWs, skipCm) ==
    LET ks == N[g].kids
        cand == { j \in (idx + 1)..(Len(ks) - 1) : ~Skipped(N, ks[j + 1], skipWs, skipCm) }
    IN IF cand = {} THEN [i |-> -1, n |-> 0]
       ELSE LET j == CHOOSE x \in cand : \A y \in cand : x <= y IN [i |-> j, n |-> ks[j + 1]]

\* token_prev == token_next(.., _reverse=True): idx += 1; range(idx - 2, -1, -1)
TokenPrev(N, g, idx, skipWs, skipCm) ==
    LET ks == N[g].kids
        cand == { j \in 0..(idx - 1) : j <= Len(ks) - 1 /\ ~Skipped(N, ks[j + 1], skipWs, skipCm) }
    IN IF cand = {} THEN [i |-> -1, n |-> 0]
       ELSE LET j == CHOOSE x \in cand : \A y \in cand : x >= y IN [i |-> j, n |-> ks[j + 1]]

\* token_index(token): position of the child in its list (0-based), -1 if absent
TokenIndex(N, g, c) ==
    LET ks == N[g].kids
        cand == { j \in 1..Len(ks) : ks[j] = c }
    IN IF cand = {} THEN -1 ELSE (CHOOSE x \in cand : \A y \in cand : x <= y) - 1

\* token_first(skip_ws, skip_cm)
TokenFirst(N, g, skipWs, skipCm) == TokenNext(N, g, -1, skipWs, skipCm).n

\* get_token_at_offset(offset): the leaf covering that character offset (0 = None)
RECURSIVE AtOffset(_, _, _, _, _)
AtOffset(N, ls, i, start, off) ==
    IF i > Len(ls) THEN 0
    ELSE LET e == start + Len(N[ls[i]].val) IN
         IF start <= off /\ off < e THEN ls[i] ELSE AtOffset(N, ls, i + 1, e, off)
TokenAtOffset(N, g, off) == AtOffset(N, LeavesOf(N, g), 1, 0, off)

\* ancestry by parent pointers (what within / has_ancestor walk)
RECURSIVE Ancestors(_, _, _)
Ancestors(N, n, fuel) == IF fuel = 0 \/ N[n].ptr = 0 THEN {}
                         ELSE {N[n].ptr} \cup Ancestors(N, N[n].ptr, fuel - 1)
Within(N, n, cls)     == \E a \in Ancestors(N, n, Len(N)) : N[a].cls = cls
\* within(C) for any class or tuple of classes: C is given as the set of concrete node classes that are C or a subclass (isinstance)
WithinAny(N, n, S)    == \E a \in Ancestors(N, n, Len(N)) : N[a].cls \in S
HasAncestor(N, n, o)  == o \in Ancestors(N, n, Len(N))
IsChildOf(N, n, o)    == N[n].ptr = o

\* ---- leaf spans ------------------------------------------------------------
\* [lo, hi] of node n in the leaf sequence of root (1-based leaf positions)
PosOf(ls, x) == CHOOSE i \in 1..Len(ls) : ls[i] = x
SpanOf(N, rootLeaves, n) ==
    LET ls == LeavesOf(N, n) IN
    IF ls = <<>> THEN [lo |-> 0, hi |-> -1]
    ELSE [lo |-> PosOf(rootLeaves, ls[1]), hi |-> PosOf(rootLeaves, ls[Len(ls)])]
=============================================================================
