--------------------------- MODULE TraceAccessors ---------------------------
(* C12 / C13 / C18: the structure the grammar (SqlGen.tla) annotated versus    *)
(* what the parse tree's nodes and accessors report.  One trace per spelled    *)
(* program; every annotation span is one step.  All texts are code points;     *)
(* extents are absolute character offsets of the first / last significant      *)
(* (non-blank, non-comment) leaf.                                              *)
(***************************************************************************)
EXTENDS Naturals, Integers, Sequences, FiniteSets, TLC, TLCExt, Json, IOUtils, Text

CONSTANT Props    \* subset of {"C12", "C13", "C18"}

Traces == JsonDeserialize(IOEnv.TRACE_FILE)
ASSUME TLCSet(1, {})

VARIABLES tid, phase, l, verdict
vars == <<tid, phase, l, verdict>>
T == Traces[tid]

Phases == <<"stmts", "ids", "wheres", "lists", "fns", "cases", "cmps", "tls">>
Items(p) == CASE p = "stmts" -> T.stmts [] p = "ids" -> T.ids [] p = "wheres" -> T.wheres
              [] p = "lists" -> T.lists [] p = "fns" -> T.fns [] p = "cases" -> T.cases
              [] p = "cmps" -> T.cmps [] p = "tls" -> T.tls
PropOf(p) == IF p = "stmts" THEN "C18" ELSE IF p = "ids" THEN "C12" ELSE "C13"

Init == tid \in 1..Len(Traces) /\ phase = 1 /\ l = 1 /\ verdict = "ok"

\* remove_quotes: one pair of surrounding " or ` (or ')
Unquote(v) == IF Len(v) >= 2 /\ v[1] \in {34, 96, 39} /\ v[1] = v[Len(v)] THEN SubSeq(v, 2, Len(v) - 1) ELSE v
UpperC(c) == IF c \in 97..122 THEN c - 32 ELSE IF c \in 224..254 /\ c # 247 THEN c - 32 ELSE c
Upper(v) == [i \in 1..Len(v) |-> UpperC(v[i])]
\* collapse every whitespace run to one blank
RECURSIVE Collapse(_, _, _)
Collapse(v, i, inWs) == IF i > Len(v) THEN <<>>
                        ELSE IF IsWsChar(v[i]) THEN (IF inWs THEN <<>> ELSE <<32>>) \o Collapse(v, i + 1, TRUE)
                        ELSE <<v[i]>> \o Collapse(v, i + 1, FALSE)

SameExtent(c, x) == c.lo = x.lo /\ c.hi = x.hi

\* ---- C12 -------------------------------------------------------------------
IdOk(x) ==
    \E i \in 1..Len(x.cands) :
      LET c == x.cands[i]  e == x.exp IN
        /\ ~c.real_none /\ c.real = Unquote(e.n)
        /\ (IF e.has_q THEN ~c.parent_none /\ c.parent = Unquote(e.q) ELSE c.parent_none)
        /\ (IF e.has_a THEN ~c.alias_none /\ c.alias = Unquote(e.a) ELSE c.alias_none)
        /\ c.has_alias = e.has_a
        /\ ~c.name_none /\ c.name = (IF e.has_a THEN Unquote(e.a) ELSE Unquote(e.n))

\* ---- C13 -------------------------------------------------------------------
WhereOk(x) == \E i \in 1..Len(x.cands) : x.cands[i].lo = x.lo /\ (x.cands[i].hi = x.hi \/ x.cands[i].hi2 = x.hi)
StripAll(s) == [i \in 1..Len(s) |-> Strip(s[i])]
ListOk(x) == \E i \in 1..Len(x.cands) : StripAll(x.cands[i].items) = StripAll(x.items)
FnOk(x) == \E i \in 1..Len(x.cands) :
             /\ SameExtent(x.cands[i], x)
             /\ (x.star \/ StripAll(x.cands[i].params) = StripAll(x.args))
PartsEq(a, b) == Len(a) = Len(b) /\ \A i \in 1..Len(a) : a[i].k = b[i].k /\ Strip(a[i].text) = Strip(b[i].text)
\* get_cases() yields a first pair for whatever precedes the first WHEN (blank or operand): not a written part
DropLead(ps, n) == IF Len(ps) > n THEN SubSeq(ps, Len(ps) - n + 1, Len(ps)) ELSE ps
CaseOk(x) == \E i \in 1..Len(x.cands) :
               /\ SameExtent(x.cands[i], x)
               /\ PartsEq(DropLead(x.cands[i].parts, Len(x.parts)), x.parts)
CmpOk(x) == \E i \in 1..Len(x.cands) :
              /\ SameExtent(x.cands[i], x)
              /\ Strip(x.cands[i].l) = Strip(x.l) /\ Strip(x.cands[i].r) = Strip(x.r)
TlOk(x) == \E i \in 1..Len(x.cands) : SameExtent(x.cands[i], x)

\* ---- C18 -------------------------------------------------------------------
TypeOk(x) == x.got = x.exp

\* attribution of C13 failures: which element shapes (features computed from the grammar's own
\* annotation) are involved.  "plain", "op", "cast", "alias" alone explain nothing.
Neutral == {"plain", "op", "cast", "alias", "op+alias", "alias+op", "alias+cast", "cast+op", "alias+cast+op"}
Explained(x) == \E i \in 1..Len(x.shapes) : x.shapes[i] \notin Neutral
Suffix(x) == IF Explained(x) THEN ":element-grouping-limited" ELSE ""

Clause(p, x) ==
    CASE p = "stmts"  -> IF TypeOk(x) THEN "ok"
                         ELSE IF x.cte_comment THEN "C18:get_type:comment-inside-cte-list"
                         ELSE "C18:get_type-names-leading-keyword"
      [] p = "ids"    -> IF IdOk(x) THEN "ok" ELSE "C12:identifier-accessors-return-written-names"
      [] p = "wheres" -> IF WhereOk(x) THEN "ok" ELSE "C13:where-covers-the-clause"
      [] p = "lists"  -> IF ListOk(x) THEN "ok" ELSE "C13:identifier-list-yields-written-items" \o Suffix(x)
      [] p = "fns"    -> IF FnOk(x) THEN "ok" ELSE "C13:function-parameters-are-written-arguments" \o Suffix(x)
      [] p = "cases"  -> IF CaseOk(x) THEN "ok" ELSE "C13:case-parts-are-written-parts"
      [] p = "cmps"   -> IF CmpOk(x) THEN "ok" ELSE "C13:comparison-operands-are-written-operands" \o Suffix(x)
      [] p = "tls"    -> IF TlOk(x) THEN "ok" ELSE "C13:typed-literal-is-one-node"

Step == /\ verdict = "ok" /\ phase <= Len(Phases)
        /\ LET p == Phases[phase]  its == Items(p) IN
             IF PropOf(p) \notin Props \/ l > Len(its)
               THEN /\ phase' = phase + 1 /\ l' = 1 /\ verdict' = "ok"
               ELSE /\ verdict' = Clause(p, its[l]) /\ l' = l + 1 /\ phase' = phase
        /\ UNCHANGED tid

Final == /\ verdict = "ok" /\ phase = Len(Phases) + 1
         /\ verdict' = IF T.exc # "" THEN "exception" ELSE "accepted"
         /\ phase' = phase + 1 /\ UNCHANGED <<tid, l>>

Next == Step \/ Final
Spec == Init /\ [][Next]_vars

Mark == /\ (verdict = "accepted") => TLCSet(1, TLCGet(1) \cup {tid})
        /\ (verdict \notin {"ok", "accepted"}) => PrintT(<<"REJ", T.id, verdict, (phase * 1000) + l - 1>>)
Post == PrintT(<<"ACCEPTED", Cardinality(TLCGet(1)), Len(Traces)>>)
=============================================================================
