---------------------------- MODULE TraceFormat ----------------------------
(* Trace validation of sqlparse.format() runs (C06, C08, C10).               *)
(* Trace: id, opt (abstract option record, Options.tla), text, insig         *)
(* (significant = non-whitespace tokens of the input: [ty, val, k]),         *)
(* stmts (per statement the stage events [f, sig] recorded by harness-side   *)
(* wrappers; may be empty when the wrapped run is not comparable), out,      *)
(* outtoks (re-lexed output incl. whitespace: [ty,val,k,ws,nl]), nin/nout    *)
(* (statement counts), out2 (format applied to its own output), exc.         *)
(*                                                                           *)
(* State machine: `cur` is the significant-token sequence the pipeline is    *)
(* holding; every stage event must transform it as the stage's contract      *)
(* (Edits algebra) allows:                                                   *)
(*   layout stages      : identity                                           *)
(*   StripCommentsFilter: drop the comments that are not hints               *)
(*   Serializer / output: identity up to line-end normalisation              *)
(* The preprocess (token-level) filters are validated between the lexer's    *)
(* tokens and the statements' initial leaves.                                *)
(***************************************************************************)
EXTENDS Naturals, Integers, Sequences, FiniteSets, TLC, TLCExt, Json, IOUtils, Text

CONSTANT Props      \* subset of {"C06", "C08", "C10"}

Traces == JsonDeserialize(IOEnv.TRACE_FILE)
ASSUME TLCSet(1, {})

VARIABLES tid, si, ei, cur, consumed, verdict
vars == <<tid, si, ei, cur, consumed, verdict>>
T == Traces[tid]
O == T.opt

IsTrue(n) == O[n] = "true"

\* ---- letter case on code points (ASCII + Latin-1; pools are restricted to that) ----
UpperC(c) == IF c \in 97..122 THEN c - 32
             ELSE IF c \in 224..254 /\ c # 247 THEN c - 32 ELSE c
LowerC(c) == IF c \in 65..90 THEN c + 32
             ELSE IF c \in 192..222 /\ c # 215 THEN c + 32 ELSE c
MapCase(mode, v) ==
    CASE mode = "upper" -> [i \in 1..Len(v) |-> UpperC(v[i])]
      [] mode = "lower" -> [i \in 1..Len(v) |-> LowerC(v[i])]
      [] mode = "capitalize" -> [i \in 1..Len(v) |-> IF i = 1 THEN UpperC(v[i]) ELSE LowerC(v[i])]
      [] OTHER -> v

\* ---- expected effect of the targeted (token-level) filters on one token ----
TruncN == CASE O.truncate_strings = "5" -> 5 [] O.truncate_strings = "20" -> 20
            [] O.truncate_strings = "2" -> 2 [] O.truncate_strings = "3" -> 3 [] OTHER -> 0
Marker == IF O.truncate_char = "unset" THEN <<91, 46, 46, 46, 93>>          \* "[...]"
          ELSE IF O.truncate_char = "x" THEN <<8230>> ELSE <<>>
TrailingQuotes(s) == LET RECURSIVE Cnt(_)
                         Cnt(i) == IF i >= 1 /\ s[i] = 39 THEN 1 + Cnt(i - 1) ELSE 0
                     IN Cnt(Len(s))
Truncated(v) ==
    \* the single-quoted literal v = ' inner ' ; longer than N -> ' first N characters marker ' ;
    \* a doubled quote counts as one character: the cut never falls between its halves
    LET inner == SubSeq(v, 2, Len(v) - 1)
        head  == SubSeq(inner, 1, TruncN)
        cut   == IF TrailingQuotes(head) % 2 = 1 THEN TruncN + 1 ELSE TruncN
    IN
    IF TruncN > 0 /\ Len(v) >= 2 /\ Len(inner) > TruncN
      THEN <<39>> \o SubSeq(inner, 1, cut) \o Marker \o <<39>>
      ELSE v

PreExpected(t) ==
    LET v1 == IF t.k = "kw" /\ O.keyword_case # "unset"
                THEN (IF t.cont /\ O.keyword_case = "capitalize" THEN MapCase("lower", t.val)     \* 'Order by': one token for str.capitalize
                      ELSE MapCase(O.keyword_case, t.val))
                ELSE t.val
        v2 == IF t.k = "name" /\ O.identifier_case # "unset" /\ (t.val = <<>> \/ t.val[1] # 34)
                THEN MapCase(O.identifier_case, v1) ELSE v1
        v3 == IF t.k = "str" /\ O.truncate_strings # "unset" THEN Truncated(v2) ELSE v2
    IN v3

\* ---- comparison of significant sequences ----------------------------------
\* a `--` comment keeps its text but the line break that ends it may be normalised
RStripNl(v) == LET RECURSIVE Cut(_)
                   Cut(i) == IF i >= 1 /\ v[i] \in {10, 13} THEN Cut(i - 1) ELSE i
               IN SubSeq(v, 1, Cut(Len(v)))
SameTok(a, b) == \/ a.val = b.val
                 \/ (a.k \in {"cmt", "hint"} /\ b.k \in {"cmt", "hint"} /\ RStripNl(a.val) = RStripNl(b.val))
SameSig(a, b) == Len(a) = Len(b) /\ \A i \in 1..Len(a) : SameTok(a[i], b[i])
SameSigTyped(a, b) == SameSig(a, b) /\ \A i \in 1..Len(a) : a[i].ty = b[i].ty

\* what SerializerUnicode does to whitespace: line ends become \n and blanks before a line end
\* vanish.  Before repair b89501c it did so to the TEXT outside '..' / "..", so a token spanning
\* lines (block comment, backtick or bracket name, dollar-quoted literal) was rewritten inside;
\* the clause naming that (SameSigLoose below) is kept so a return of the defect is named precisely.
IsBlankC(c) == IsWsChar(c) /\ c \notin {10, 13}
RECURSIVE NormFrom(_, _, _)
NormFrom(v, i, pend) ==
    IF i > Len(v) THEN <<>>                                   \* trailing blanks dropped
    ELSE IF v[i] = 13 /\ i < Len(v) /\ v[i + 1] = 10 THEN <<10>> \o NormFrom(v, i + 2, <<>>)
    ELSE IF v[i] \in {10, 13} THEN <<10>> \o NormFrom(v, i + 1, <<>>)
    ELSE IF IsBlankC(v[i]) THEN NormFrom(v, i + 1, Append(pend, v[i]))
    ELSE pend \o <<v[i]>> \o NormFrom(v, i + 1, <<>>)
SerNorm(v) == RStripNl(NormFrom(v, 1, <<>>))
MultiLineTok(t) == t.k \in {"cmt", "hint"} \/ (t.val # <<>> /\ t.val[1] \in {96, 36, 91, 180})
SameTokLoose(a, b) == SameTok(a, b) \/ (MultiLineTok(a) /\ SerNorm(a.val) = SerNorm(b.val))
SameSigLoose(a, b) == Len(a) = Len(b) /\ \A i \in 1..Len(a) : SameTokLoose(a[i], b[i])

DropComments(s) == SelectSeq(s, LAMBDA t : t.k # "cmt")

Layout == {"SpacesAroundOperatorsFilter", "StripWhitespaceFilter", "ReindentFilter", "AlignedIndentFilter",
           "SerializerUnicode"}

Init == /\ tid \in 1..Len(Traces) /\ si = 1 /\ ei = 1 /\ cur = <<>> /\ consumed = 0 /\ verdict = "ok"

Check68 == "C06" \in Props \/ "C08" \in Props

\* ---- one step per stage event ----------------------------------------------
StageClause(e) ==
    CASE e.f = "initial" ->
           \* the statement's leaves are the lexer's next tokens, transformed by the preprocess filters
           IF consumed + Len(e.sig) > Len(T.insig) THEN "initial:more-tokens-than-lexed"
           ELSE IF \E i \in 1..Len(e.sig) : e.sig[i].val # PreExpected(T.insig[consumed + i])
             THEN "preprocess:targets-changed-exactly"
           ELSE "ok"
      [] e.f \in (Layout \ {"SerializerUnicode"}) /\ ~SameSig(cur, e.sig)
                                                   -> "layout-stage-changed-significant-tokens:" \o e.f
      [] e.f = "StripCommentsFilter" /\ ~SameSig(DropComments(cur), e.sig) -> "strip-comments:removes-exactly-non-hint-comments"
      [] OTHER -> "ok"

Step == /\ verdict = "ok" /\ Check68 /\ si <= Len(T.stmts)
        /\ LET S == T.stmts[si].stages
               e == S[ei]
           IN /\ verdict' = StageClause(e)
              /\ cur' = IF e.f \in {"OutputPHPFilter", "OutputPythonFilter", "SerializerUnicode"} THEN cur ELSE e.sig
              /\ consumed' = IF e.f = "initial" THEN consumed + Len(e.sig) ELSE consumed
              /\ IF ei = Len(S) THEN si' = si + 1 /\ ei' = 1 ELSE si' = si /\ ei' = ei + 1
        /\ UNCHANGED tid

\* ---- final: observable clauses on input / output ---------------------------
OutSig == T.outsig      \* significant tokens of the re-lexed output, multi-word keywords word by word
Expected == LET pre == [i \in 1..Len(T.insig) |-> [T.insig[i] EXCEPT !.val = PreExpected(T.insig[i])]]
            IN IF IsTrue("strip_comments") THEN DropComments(pre) ELSE pre
PlainOutput == O.output_format \in {"unset", "sql"}

\* C10 normal forms over the re-lexed output
Toks == T.outtoks
NT == Len(Toks)
IsWs(i) == Toks[i].ws
IsCmt(i) == Toks[i].k \in {"cmt", "hint"}
IsPunct(i, c) == Toks[i].ty = "Token.Punctuation" /\ Toks[i].val = <<c>>
\* "except next to a comment": a comment within two tokens of the parenthesis, on either side
NearComment(i) == \E j \in (i - 2)..(i + 2) : j >= 1 /\ j <= NT /\ IsCmt(j)
NF_strip ==
    /\ NT > 0 => (~IsWs(1) /\ ~IsWs(NT))
    /\ \A i \in 1..(NT - 1) : ~(IsWs(i) /\ IsWs(i + 1))
    /\ \A i \in 1..(NT - 1) : (IsPunct(i, 40) /\ IsWs(i + 1)) => NearComment(i)
    /\ \A i \in 2..NT : (IsPunct(i, 41) /\ IsWs(i - 1)) => NearComment(i)
IsOpTok(i) == Toks[i].k = "op"
\* with strip_whitespace also requested the blank after `(` / before `)` is removed again: a unary sign
\* directly inside a parenthesis is exempt on that side
\* (StripWhitespaceFilter is in the stack for strip_whitespace AND for every reindent option: validate_options sets it)
StripsWs == \E n \in {"strip_whitespace", "reindent", "reindent_aligned", "indent_columns"} : IsTrue(n)
NF_ops == \A i \in 1..NT : IsOpTok(i) =>
             /\ (i > 1 /\ (IsWs(i - 1) \/ (StripsWs /\ IsPunct(i - 1, 40))))
             /\ (i < NT /\ (IsWs(i + 1) \/ (StripsWs /\ IsPunct(i + 1, 41))))

\* reindent: clause keywords start their own line; no line ends in a blank
UpperVal(i) == [j \in 1..Len(Toks[i].val) |-> UpperC(Toks[i].val[j])]
ClauseWords == { <<70,82,79,77>>, <<87,72,69,82,69>>, <<72,65,86,73,78,71>>, <<76,73,77,73,84>>,
                 <<85,78,73,79,78>>, <<69,88,67,69,80,84>>, <<83,69,84>> }       \* FROM WHERE HAVING LIMIT UNION EXCEPT SET
RECURSIVE PrevNonBlank(_)
PrevNonBlank(i) == IF i < 1 THEN 0 ELSE IF IsWs(i) /\ ~Toks[i].nl THEN PrevNonBlank(i - 1) ELSE i
StartsLine(i) == LET p == PrevNonBlank(i - 1) IN p = 0 \/ Toks[p].nl \/ (Toks[p].k = "cmt" /\ Toks[p].val[Len(Toks[p].val)] \in {10, 13})
EndsWithJoin(v) == Len(v) >= 4 /\ SubSeq(v, Len(v) - 3, Len(v)) = <<74, 79, 73, 78>>
IsByWord(v) == v \in { <<71,82,79,85,80,32,66,89>>, <<79,82,68,69,82,32,66,89>> }      \* GROUP BY, ORDER BY (single blank)
\* AND / OR start a line too, except the AND of BETWEEN ... AND: the nearest condition word before it is BETWEEN
AndOr == { <<65,78,68>>, <<79,82>> }
CondWords == AndOr \cup { <<66,69,84,87,69,69,78>>, <<87,72,69,82,69>>, <<79,78>>, <<87,72,69,78>>, <<72,65,86,73,78,71>> }   \* + BETWEEN WHERE ON WHEN HAVING
RECURSIVE PrevCondWord(_)
PrevCondWord(i) == IF i < 1 THEN <<>>
                   ELSE IF Toks[i].k = "kw" /\ UpperVal(i) \in CondWords THEN UpperVal(i)
                   ELSE PrevCondWord(i - 1)
IsFreeAndOr(i) == Toks[i].k = "kw" /\ UpperVal(i) \in AndOr
                  /\ ~(UpperVal(i) = <<65,78,68>> /\ PrevCondWord(i - 1) = <<66,69,84,87,69,69,78>>)
IsClauseKw(i) == (Toks[i].k = "kw" /\ (UpperVal(i) \in ClauseWords \/ EndsWithJoin(UpperVal(i)) \/ IsByWord(UpperVal(i))))
                 \/ IsFreeAndOr(i)
NF_reindent_kw == \A i \in 1..NT : IsClauseKw(i) => StartsLine(i)
NF_no_trailing_blank ==
    \A i \in 1..NT : (IsWs(i) /\ ~Toks[i].nl) => (i < NT /\ ~Toks[i + 1].nl)

AnyLayout == \E n \in {"use_space_around_operators", "strip_whitespace", "indent_columns", "reindent",
                         "reindent_aligned"} : IsTrue(n)
Reindenting == IsTrue("reindent") \/ IsTrue("reindent_aligned") \/ IsTrue("indent_columns")

\* Finding C08-strip-comments-glues-neighbours, stated exactly: the output carries the same
\* non-blank character stream as expected, and the only token boundaries of the input that are no
\* token boundaries of the output are those where a comment was removed that stood at the FRONT EDGE of
\* its token list in the grouped tree (first child, or right behind `(`: `edge`, recorded from the real
\* tree) - the one place where the filter leaves no blank.  A glue at any other removed comment is not
\* this finding.
RECURSIVE CumLens(_, _, _)
CumLens(vals, i, acc) == IF i > Len(vals) THEN <<>> ELSE <<acc + Len(vals[i])>> \o CumLens(vals, i + 1, acc + Len(vals[i]))
RECURSIVE CmtBefore(_, _)           \* for every non-comment input token: was a comment removed right before it?
CmtBefore(i, seen) == IF i > Len(T.insig) THEN <<>>
                      ELSE IF T.insig[i].k = "cmt" THEN CmtBefore(i + 1, seen \/ T.insig[i].edge)   \* only a comment at the front edge of its token list
                      ELSE <<seen>> \o CmtBefore(i + 1, FALSE)
GlueOnlyAtRemovedComments ==
    LET inv  == [i \in 1..Len(Expected) |-> Expected[i].val]
        outv == [i \in 1..Len(OutSig) |-> OutSig[i].val]
        cin  == CumLens(inv, 1, 0)
        cout == { CumLens(outv, 1, 0)[i] : i \in 1..Len(outv) }
        cb   == CmtBefore(1, FALSE)
    IN /\ ConcatAll(inv, 1) = ConcatAll(outv, 1)
       /\ Len(cb) = Len(inv)
       /\ \A i \in 1..(Len(inv) - 1) : (~cb[i + 1]) => cin[i] \in cout

\* finding C08-truncate-cuts-after-backslash: some literal's truncated form ends  ...\ marker '  with an odd run of
\* backslashes directly before the marker-less closing quote
TrailingBackslashes(s) == LET RECURSIVE Cnt(_)
                              Cnt(i) == IF i >= 1 /\ s[i] = 92 THEN 1 + Cnt(i - 1) ELSE 0
                          IN Cnt(Len(s))
CutBehindBackslash ==
    /\ O.truncate_strings # "unset"
    /\ \E i \in 1..Len(T.insig) :
         LET t == T.insig[i]  v == Truncated(t.val) IN
           /\ t.k = "str" /\ v # t.val
           /\ TrailingBackslashes(SubSeq(v, 1, Len(v) - 1)) % 2 = 1

FinalClause ==
    CASE T.exc # "" -> "exception"
      [] Check68 /\ PlainOutput /\ ~SameSig(Expected, OutSig) /\ CutBehindBackslash
           -> "truncate:cut-directly-behind-a-backslash"
      [] Check68 /\ PlainOutput /\ IsTrue("strip_comments") /\ ~SameSig(Expected, OutSig)
           /\ GlueOnlyAtRemovedComments
           -> "strip-comments:glues-neighbours-of-removed-comment"
      [] Check68 /\ PlainOutput /\ ~SameSig(Expected, OutSig) /\ SameSigLoose(Expected, OutSig)
           -> "serializer-rewrites-line-ends-inside-multiline-token"
      [] Check68 /\ PlainOutput /\ ~SameSig(Expected, OutSig)
           -> IF Len(Expected) # Len(OutSig) THEN "output:tokens-dropped-added-fused-or-split"
              ELSE "output:token-values-changed"
      [] Check68 /\ PlainOutput /\ T.nin # T.nout /\ ~IsTrue("strip_comments") -> "output:statement-count-changed"
      [] "C08" \in Props /\ PlainOutput /\ ~AnyLayout /\ T.out2 # T.out /\ ~SameSig(OutSig, T.out2sig)
                                                                      -> "targeted-filter:not-idempotent"
      [] "C10" \in Props /\ IsTrue("strip_whitespace") /\ PlainOutput /\ ~Reindenting /\ ~NF_strip -> "nf:strip-whitespace"
      [] "C10" \in Props /\ IsTrue("use_space_around_operators") /\ PlainOutput /\ ~NF_ops -> "nf:space-around-operators"
      [] "C10" \in Props /\ IsTrue("reindent") /\ PlainOutput /\ ~NF_reindent_kw -> "nf:reindent-clause-keyword-starts-line"
      [] "C10" \in Props /\ (IsTrue("reindent") \/ IsTrue("reindent_aligned")) /\ PlainOutput /\ ~NF_no_trailing_blank
           -> "nf:line-ends-in-blank"
      [] "C10" \in Props /\ PlainOutput /\ T.out2 # T.out
           /\ (IsTrue("strip_whitespace") \/ IsTrue("use_space_around_operators"))
           /\ ~IsTrue("reindent") /\ ~IsTrue("reindent_aligned") /\ ~IsTrue("indent_columns")
           -> "nf:not-a-fixed-point"
      [] OTHER -> "accepted"

Final == /\ verdict = "ok" /\ (si > Len(T.stmts) \/ ~Check68)
         /\ verdict' = FinalClause
         /\ si' = Len(T.stmts) + 2
         /\ UNCHANGED <<tid, ei, cur, consumed>>

Next == Step \/ (Final /\ si <= Len(T.stmts) + 1)
Spec == Init /\ [][Next]_vars

Mark == /\ (verdict = "accepted") => TLCSet(1, TLCGet(1) \cup {tid})
        /\ (verdict \notin {"ok", "accepted"}) => PrintT(<<"REJ", T.id, verdict, si>>)
Post == PrintT(<<"ACCEPTED", Cardinality(TLCGet(1)), Len(Traces)>>)
=============================================================================
