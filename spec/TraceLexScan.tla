--------------------------- MODULE TraceLexScan ---------------------------
(* Trace validation of real executions of Lexer.get_tokens against LexScan. *)
(* A batch file (JSON array) holds many traces; each trace:                 *)
(*   [id, text (code points), nrules, ev: <<[scans, pos, rule, end, tried,  *)
(*     err, val (code points), cty (coarse type name)]>>, exc,              *)
(*   region [lo, hi, ty] (C14: an opaque region of the text; lo = 0: none)] *)
(* One event per token the generator yielded.  pos/end are 1-based, end     *)
(* exclusive; rule = index (1-based) of the rule that matched, 0 for the    *)
(* Error fallback; tried = number of rules consulted in that scan; scans =  *)
(* number of scan-loop iterations since the previous yield.                 *)
(* Verdicts are total: a mismatching step names the failing clause.         *)
(***************************************************************************)
EXTENDS Naturals, Integers, Sequences, FiniteSets, TLC, TLCExt, Json, IOUtils, LexGuards

Traces == JsonDeserialize(IOEnv.TRACE_FILE)

ASSUME TLCSet(1, {})

VARIABLES tid, l, pos, verdict
vars == <<tid, l, pos, verdict>>

T == Traces[tid]
N == Len(T.text)

Init == /\ tid \in 1..Len(Traces)
        /\ l = 1 /\ pos = 1 /\ verdict = "ok"

Clause(e) ==
    CASE ~T.plain /\ e.scans # 1                       -> "one-scan-per-token"
      [] e.pos # pos                                   -> "scan-position"    \* dropped / duplicated characters
      [] ~InTextN(N, e.pos)                              -> "position-in-text"
      [] e.end <= e.pos                                -> "empty-token"
      [] e.end > N + 1                                 -> "overrun"
      [] e.val # SubSeq(T.text, e.pos, e.end - 1)      -> "value-is-slice"
      [] ~T.plain /\ e.err /\ e.rule # 0               -> "error-type-from-rule"
      [] e.err /\ e.end # e.pos + 1                    -> "error-one-char"
      [] ~T.plain /\ e.err /\ e.tried # T.nrules       -> "error-only-if-no-rule"
      [] ~T.plain /\ ~e.err /\ e.rule = 0              -> "token-without-rule"
      [] ~T.plain /\ ~e.err /\ e.tried # e.rule        -> "first-match-wins"
      [] OTHER                                         -> "ok"

Step == /\ verdict = "ok" /\ l <= Len(T.ev)
        /\ LET e == T.ev[l] IN
             /\ verdict' = Clause(e)
             /\ pos' = NextPos(pos, e.end, 0)           \* the spec's own successor
        /\ l' = l + 1 /\ UNCHANGED tid

\* end of trace: scan reached the end of the text, no exception escaped
Final == /\ verdict = "ok" /\ l = Len(T.ev) + 1
         /\ verdict' = (CASE T.exc # ""    -> "exception"
                          [] pos # N + 1   -> "incomplete"
                          [] T.region.lo > 0 /\ ~\E i \in 1..Len(T.ev) :
                                 T.ev[i].pos = T.region.lo /\ T.ev[i].end = T.region.hi + 1 /\ T.ev[i].cty = T.region.ty
                                           -> "region-is-exactly-one-token-of-its-type"      \* C14
                          [] T.region.lo > 0 /\ \E i \in 1..Len(T.ev) :
                                 T.ev[i].cty = "Punctuation" /\ T.ev[i].pos > T.region.lo /\ T.ev[i].end <= T.region.hi
                                           -> "punctuation-token-inside-region"              \* C05, lexical half
                          [] OTHER         -> "accepted")
         /\ l' = l + 1 /\ UNCHANGED <<tid, pos>>

Next == Step \/ Final
Spec == Init /\ [][Next]_vars

Terminal == verdict # "ok"
Mark == /\ (verdict = "accepted") => TLCSet(1, TLCGet(1) \cup {tid})
        /\ (verdict \notin {"ok", "accepted"}) => PrintT(<<"REJ", T.id, verdict, l - 1>>)
Post == /\ PrintT(<<"ACCEPTED", Cardinality(TLCGet(1)), Len(Traces)>>)
        /\ TRUE
=============================================================================
