--------------------------- MODULE TraceLexerInit ---------------------------
(* Trace validation of real thread schedules through the default lexer's      *)
(* creation (C20).  Trace: id, nthreads, ndicts, ev = sequence of observed     *)
(* abstract states [t (thread that moved), s (projection of the singleton:     *)
(* inst, hasRegex, hasKw, regexSet, nDicts, owner), phase (per thread:         *)
(* start | wait | in | out | use | done)], ok (per thread: its token list      *)
(* equals the sequential result).                                              *)
(* Property clauses decide C20; the lock-discipline clause is the binding to   *)
(* LexerInit.tla (a mismatch there alone is drift, not a violation).           *)
(***************************************************************************)
EXTENDS Naturals, Integers, Sequences, FiniteSets, TLC, TLCExt, Json, IOUtils

Traces == JsonDeserialize(IOEnv.TRACE_FILE)
ASSUME TLCSet(1, {})

VARIABLES tid, l, verdict, drift
vars == <<tid, l, verdict, drift>>
T == Traces[tid]

Init == tid \in 1..Len(Traces) /\ l = 1 /\ verdict = "ok" /\ drift = FALSE

Complete(s) == s.inst /\ s.hasRegex /\ s.hasKw /\ s.regexSet /\ s.nDicts = T.ndicts
InitState(s) == <<s.inst, s.hasRegex, s.hasKw, s.regexSet, s.nDicts>>

Clause(e) ==
    CASE \E t \in 1..T.nthreads : e.phase[t] = "use" /\ ~Complete(e.s)  -> "thread-uses-incompletely-initialised-lexer"
      [] OTHER -> "ok"

\* LexerInit.tla: only the lock owner changes the singleton; at most one thread inside
Discipline(prev, e) ==
    /\ (InitState(prev.s) # InitState(e.s)) => prev.s.owner = e.t
    /\ Cardinality({ t \in 1..T.nthreads : e.phase[t] = "in" }) <= 1

Step == /\ verdict = "ok" /\ l <= Len(T.ev)
        /\ verdict' = Clause(T.ev[l])
        /\ drift' = (drift \/ (l > 1 /\ ~Discipline(T.ev[l - 1], T.ev[l])))
        /\ l' = l + 1 /\ UNCHANGED tid
Final == /\ verdict = "ok" /\ l = Len(T.ev) + 1
         /\ verdict' = IF \E t \in 1..T.nthreads : ~T.ok[t] THEN "thread-result-differs-from-sequential-result"
                       ELSE IF T.hang THEN "schedule-did-not-terminate" ELSE "accepted"
         /\ l' = l + 1 /\ UNCHANGED <<tid, drift>>
Next == Step \/ Final
Spec == Init /\ [][Next]_vars

Mark == /\ (verdict = "accepted") => TLCSet(1, TLCGet(1) \cup {tid})
        /\ (verdict \notin {"ok"} /\ drift) => PrintT(<<"DRIFT", T.id>>)
        /\ (verdict \notin {"ok", "accepted"}) => PrintT(<<"REJ", T.id, verdict, l - 1>>)
Post == PrintT(<<"ACCEPTED", Cardinality(TLCGet(1)), Len(Traces)>>)
=============================================================================
