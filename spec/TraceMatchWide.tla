--------------------------- MODULE TraceMatchWide ---------------------------
(* C09 on WIDE inputs: a delimiter-tag sequence of ONE kind of pair (plus     *)
(* filler), tens of thousands of tokens long, and the group spans of the real *)
(* tree.  For a single kind the textbook matcher is one stack; it is stepped   *)
(* tag by tag (one TLC state per tag - no recursion over the sequence) and     *)
(* every pair it closes must be the next group of the tree, nothing else.      *)
(* Trace: id, tags (sequence of "o" | "c" | "x"), groups (sequence of          *)
(* <<lo, hi>> leaf positions of the nodes of the pair's class, sorted by hi),  *)
(* exc.                                                                        *)
(***************************************************************************)
EXTENDS Naturals, Sequences, FiniteSets, TLC, TLCExt, Json, IOUtils

Traces == JsonDeserialize(IOEnv.TRACE_FILE)
ASSUME TLCSet(1, {})

VARIABLES tid, l, stk, gi, verdict
vars == <<tid, l, stk, gi, verdict>>
T == Traces[tid]

Init == tid \in 1..Len(Traces) /\ l = 1 /\ stk = <<>> /\ gi = 1 /\ verdict = "ok"

Step == /\ verdict = "ok" /\ T.exc = "" /\ l <= Len(T.tags)
        /\ LET t == T.tags[l] IN
           CASE t = "o" -> /\ stk' = Append(stk, l) /\ UNCHANGED <<gi, verdict>>
             [] t = "c" /\ stk # <<>> ->
                   \* the pair (top of stack, l) must be the next group of the tree
                   /\ stk' = SubSeq(stk, 1, Len(stk) - 1)
                   /\ IF gi <= Len(T.groups) /\ T.groups[gi] = <<stk[Len(stk)], l>>
                        THEN gi' = gi + 1 /\ UNCHANGED verdict
                        ELSE verdict' = "wide:matched-pair-is-not-a-group" /\ UNCHANGED gi
             [] OTHER -> UNCHANGED <<stk, gi, verdict>>          \* filler, or a closer without an opener
        /\ l' = l + 1 /\ UNCHANGED tid
Final == /\ verdict = "ok" /\ (l = Len(T.tags) + 1 \/ T.exc # "")
         /\ verdict' = (IF T.exc # "" THEN "exception"
                        ELSE IF gi # Len(T.groups) + 1 THEN "wide:group-that-is-no-matched-pair"
                        ELSE "accepted")
         /\ l' = Len(T.tags) + 2 /\ UNCHANGED <<tid, stk, gi>>
Next == Step \/ Final
Spec == Init /\ [][Next]_vars

Mark == /\ (verdict = "accepted") => TLCSet(1, TLCGet(1) \cup {tid})
        /\ (verdict \notin {"ok", "accepted"}) => PrintT(<<"REJ", T.id, verdict, l - 1>>)
Post == PrintT(<<"ACCEPTED", Cardinality(TLCGet(1)), Len(Traces)>>)
=============================================================================
