----------------------------- MODULE TraceParse -----------------------------
(* Trace validation of sqlparse.parse() results (C02, C03, C09).             *)
(* Trace: id, text, lex (lexer tokens [ty, val]), stmts, exc.                *)
(* Each statement: root, nodes (node table, see TokenTree), strs (str(node)  *)
(* as the library computes it, per node), nav (navigation-helper queries     *)
(* with the answers the real objects gave).                                  *)
(* One step per statement; `off` = number of lexer tokens consumed so far.   *)
(***************************************************************************)
EXTENDS Naturals, Integers, Sequences, FiniteSets, TLC, TLCExt, Json, IOUtils,
        Text, TokenTree, MatchRef

CONSTANT Props      \* subset of {"C02", "C03", "C09"}: which clause families decide

Traces == JsonDeserialize(IOEnv.TRACE_FILE)
ASSUME TLCSet(1, {})

VARIABLES tid, l, off, verdict, implmatch
vars == <<tid, l, off, verdict, implmatch>>
T == Traces[tid]

Init == tid \in 1..Len(Traces) /\ l = 1 /\ off = 0 /\ verdict = "ok" /\ implmatch = TRUE

SixClasses == { Classes[i] : i \in 1..Len(Classes) }

RetypeOk(lexTy, leafTy) ==
    \/ lexTy = leafTy
    \/ (lexTy \in {"Token.Wildcard", "Token.Operator"} /\ leafTy = "Token.Operator")

\* tree intervals of the six bracket/block classes; trailing attached comments ignored
CoreHi(N, ls, sp) ==
    LET RECURSIVE Back(_)
        Back(i) == IF i <= sp.lo THEN i
                   ELSE IF N[ls[i]].tag \in {"ws", "cmt"} THEN Back(i - 1) ELSE i
    IN Back(sp.hi)
TreeIntervals(N, root) ==
    LET ls == LeavesOf(N, root) IN
    { [cls |-> N[g].cls, lo |-> SpanOf(N, ls, g).lo, hi |-> CoreHi(N, ls, SpanOf(N, ls, g))] :
        g \in { n \in 1..Len(N) : N[n].cls \in SixClasses } }

NavOk(N, root, q) ==
    CASE q.op = "next"     -> LET r == TokenNext(N, q.g, q.i, q.sw, q.sc) IN r.i = q.ri /\ r.n = q.rn
      [] q.op = "prev"     -> LET r == TokenPrev(N, q.g, q.i, q.sw, q.sc) IN r.i = q.ri /\ r.n = q.rn
      [] q.op = "index"    -> TokenIndex(N, q.g, q.o) = q.ri
      [] q.op = "first"    -> TokenFirst(N, q.g, q.sw, q.sc) = q.rn
      [] q.op = "offset"   -> TokenAtOffset(N, root, q.i) = q.rn
      [] q.op = "within"   -> WithinAny(N, q.o, {q.cs[k] : k \in 1..Len(q.cs)}) = (q.ri = 1)
      [] q.op = "ancestor" -> HasAncestor(N, q.o, q.g) = (q.ri = 1)
      [] q.op = "childof"  -> IsChildOf(N, q.o, q.g) = (q.ri = 1)
      [] OTHER -> FALSE

StmtClause(S) ==
    LET N == S.nodes
        root == S.root
        ls == LeavesOf(N, root)
        tags == [i \in 1..Len(ls) |-> N[ls[i]].tag]
        C02 == "C02" \in Props
        C03 == "C03" \in Props
        C09 == "C09" \in Props
    IN
    CASE C03 /\ ~OccursOnce(N, root)                          -> "C03:node-occurs-once"
      [] C03 /\ ~GroupsNonEmpty(N)                            -> "C03:group-non-empty"
      [] C03 /\ ~ParentPointers(N, root)                      -> "C03:parent-pointer-is-container"
      [] C03 /\ ~CachedValues(N)                              -> "C03:cached-value-is-text"
      [] C02 /\ \E n \in 1..Len(N) : S.strs[n] # TextOf(N, n) -> "C02:str-is-leaf-concatenation"
      [] (C02 \/ C03) /\ off + Len(ls) > Len(T.lex)           -> "C03:more-leaves-than-lexer-tokens"
      [] (C02 \/ C03) /\ \E i \in 1..Len(ls) : N[ls[i]].val # T.lex[off + i].val
                                                              -> "C03:leaf-values-are-lexer-tokens"
      [] C03 /\ \E i \in 1..Len(ls) : ~RetypeOk(T.lex[off + i].ty, N[ls[i]].ty)
                                                              -> "C03:leaf-types-are-lexer-types"
      [] C03 /\ \E i \in 1..Len(S.nav) : ~NavOk(N, root, S.nav[i])
                                                              -> "C03:navigation-agrees-with-structure"
      [] C09 /\ \E g \in TreeIntervals(N, root) : g.lo < 1 \/ g.hi > Len(ls) \/ g.hi < g.lo
                                                              -> "C09:group-without-leaves"
      [] C09 /\ \E g \in TreeIntervals(N, root) :
                  tags[g.lo] # OpenTag(g.cls) \/ tags[g.hi] # CloseTag(g.cls)
                                                              -> "C09:group-starts-with-opener-ends-with-closer"
      [] C09 /\ TreeIntervals(N, root) # MatchRef(tags)       -> "C09:groups-are-the-matched-pairs"
      [] OTHER                                                -> "ok"

Step == /\ verdict = "ok" /\ l <= Len(T.stmts)
        /\ LET S == T.stmts[l] IN
             /\ verdict' = StmtClause(S)
             /\ off' = off + Len(LeavesOf(S.nodes, S.root))
             /\ implmatch' = (implmatch /\
                   ("C09" \in Props =>
                      LET ls == LeavesOf(S.nodes, S.root)
                          tags == [i \in 1..Len(ls) |-> S.nodes[ls[i]].tag]
                      IN TreeIntervals(S.nodes, S.root) = MatchImpl(tags)))
        /\ l' = l + 1 /\ UNCHANGED tid

\* end: only whitespace tokens of the lexer stream may be missing; texts concatenate to the input
StmtTexts == [i \in 1..Len(T.stmts) |-> TextOf(T.stmts[i].nodes, T.stmts[i].root)]
Final == /\ verdict = "ok" /\ l = Len(T.stmts) + 1
         /\ verdict' =
              CASE T.exc # ""                                              -> "exception"
                [] "C02" \in Props /\ \E i \in (off + 1)..Len(T.lex) : ~T.lex[i].ws
                                                                           -> "C02:non-blank-tail-dropped"
                [] "C02" \in Props /\ LET c == ConcatAll(StmtTexts, 1) IN
                        ~(IsPrefixAt(c, T.text) /\ AllWsFrom(T.text, Len(c) + 1))
                                                                           -> "C02:statements-concatenate-to-input"
                [] OTHER                                                   -> "accepted"
         /\ l' = l + 1 /\ UNCHANGED <<tid, off, implmatch>>

Next == Step \/ Final
Spec == Init /\ [][Next]_vars

Mark == /\ (verdict = "accepted") => TLCSet(1, TLCGet(1) \cup {tid})
        /\ (verdict \notin {"ok", "accepted"}) => PrintT(<<"REJ", T.id, verdict, l - 1>>)
        /\ (verdict \notin {"ok"} /\ ~implmatch) => PrintT(<<"DRIFT", T.id>>)
Post == PrintT(<<"ACCEPTED", Cardinality(TLCGet(1)), Len(Traces)>>)
=============================================================================
