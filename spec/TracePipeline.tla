--------------------------- MODULE TracePipeline ---------------------------
(* Outcomes of entry-point calls (C07 totality, C15 recursion guard) against  *)
(* Pipeline.tla's outcome alphabet.  Trace = one call:                        *)
(*   id, api, optvalid, outcome ("ok" | exception class name), lexed (did     *)
(*   lexing start), accexc (number of accessor calls that raised something    *)
(*   other than SQLParseError), fault ("" or the injected fault point),       *)
(*   faulthit (the injected fault was reached), later ("ok" | ...: an         *)
(*   ordinary call afterwards), exit (subprocess exit status, 0 in-process),  *)
(*   roundtrip (C15: result still satisfies the text round trip)              *)
(***************************************************************************)
EXTENDS Naturals, Integers, Sequences, FiniteSets, TLC, TLCExt, Json, IOUtils

Traces == JsonDeserialize(IOEnv.TRACE_FILE)
ASSUME TLCSet(1, {})

VARIABLES tid, verdict
vars == <<tid, verdict>>
T == Traces[tid]
Init == tid \in 1..Len(Traces) /\ verdict = "ok"

Allowed == {"ok", "SQLParseError"}

Clause ==
    CASE T.exit # 0                                      -> "interpreter-brought-down"
      [] T.outcome \notin Allowed                        -> "exception-escapes:" \o T.outcome
      [] ~T.optvalid /\ T.outcome # "SQLParseError"      -> "invalid-option-not-rejected"
      [] ~T.optvalid /\ T.lexed                          -> "invalid-option-rejected-after-work-started"
      [] T.fault # "" /\ T.faulthit /\ T.outcome # "SQLParseError" -> "recursion-fault-not-translated"
      [] T.accexc > 0                                    -> "accessor-raises"
      [] T.later \notin {"ok", ""}                       -> "later-call-affected"
      [] ~T.roundtrip                                    -> "result-after-deep-nesting-not-text-preserving"
      [] OTHER                                           -> "accepted"

Step == verdict = "ok" /\ verdict' = Clause /\ UNCHANGED tid
Spec == Init /\ [][Step]_vars
Mark == /\ (verdict = "accepted") => TLCSet(1, TLCGet(1) \cup {tid})
        /\ (verdict \notin {"ok", "accepted"}) => PrintT(<<"REJ", T.id, verdict, 0>>)
Post == PrintT(<<"ACCEPTED", Cardinality(TLCGet(1)), Len(Traces)>>)
=============================================================================
