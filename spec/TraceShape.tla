----------------------------- MODULE TraceShape -----------------------------
(* C11: a script and its respelling (other non-empty whitespace between       *)
(* tokens and inside multi-word keywords, other keyword letter case) must     *)
(* have the same statement boundaries, statement types and tree shape.        *)
(* Trace: id, a / b = projections [n (statements), types, bounds (number of   *)
(* significant tokens per statement), shape (pre-order entries: "(Class",     *)
(* ")", or leaf "type:NORMALISED VALUE"; whitespace leaves erased)].          *)
(***************************************************************************)
EXTENDS Naturals, Sequences, FiniteSets, TLC, TLCExt, Json, IOUtils

Traces == JsonDeserialize(IOEnv.TRACE_FILE)
ASSUME TLCSet(1, {})

VARIABLES tid, l, verdict
vars == <<tid, l, verdict>>
T == Traces[tid]

Init == tid \in 1..Len(Traces) /\ l = 0 /\ verdict = "ok"

\* one step per tree entry; the first step compares the statement-level facts
HeadStep == /\ verdict = "ok" /\ l = 0
        /\ verdict' = (CASE T.a.exc # "" \/ T.b.exc # "" -> "exception"
                        [] T.a.n # T.b.n             -> "statement-count-differs"
                        [] T.a.bounds # T.b.bounds   -> "statement-boundaries-differ"
                        [] T.a.types # T.b.types     -> "statement-types-differ"
                        [] Len(T.a.shape) # Len(T.b.shape) -> "tree-shape-differs"
                        [] OTHER -> "ok")
        /\ l' = 1 /\ UNCHANGED tid
Step == /\ verdict = "ok" /\ l >= 1 /\ l <= Len(T.a.shape)
        /\ verdict' = IF T.a.shape[l] = T.b.shape[l] THEN "ok" ELSE "tree-shape-differs"
        /\ l' = l + 1 /\ UNCHANGED tid
Final == /\ verdict = "ok" /\ l = Len(T.a.shape) + 1
         /\ verdict' = "accepted" /\ l' = l + 1 /\ UNCHANGED tid
Next == HeadStep \/ Step \/ Final
Spec == Init /\ [][Next]_vars

Mark == /\ (verdict = "accepted") => TLCSet(1, TLCGet(1) \cup {tid})
        /\ (verdict \notin {"ok", "accepted"}) => PrintT(<<"REJ", T.id, verdict, l - 1>>)
Post == PrintT(<<"ACCEPTED", Cardinality(TLCGet(1)), Len(Traces)>>)
=============================================================================
