----------------------------- MODULE TraceSplit -----------------------------
(* Trace validation for the splitter family (C04, C05, C17).                 *)
(* Trace (one per script):                                                   *)
(*   id, mode ("c04" | "tok"),                                               *)
(*   c04: text, stmts (text of each parse() statement), pieces (split()),    *)
(*        resplit (split(piece) per piece), semi (pieces of                  *)
(*        split(strip_semicolon=True))                                       *)
(*   tok: kinds (splitter kind of every lexer token), piece (index of the    *)
(*        split()/parse() piece holding the token, 0 = dropped blank tail),  *)
(*        fin (token is a FINAL `;` by the generator's annotation),          *)
(*        annotated (fin is meaningful), npieces                             *)
(* Verdicts are total and name the failing clause.                           *)
(***************************************************************************)
EXTENDS Naturals, Integers, Sequences, FiniteSets, TLC, TLCExt, Json, IOUtils,
        Text, Splitter

Traces == JsonDeserialize(IOEnv.TRACE_FILE)
ASSUME TLCSet(1, {})

VARIABLES tid, l, verdict, nfin, drift, ss, nout, allWs
vars == <<tid, l, verdict, nfin, drift, ss, nout, allWs>>
\* ss / nout / allWs : the implementation-shaped Splitter model stepped in lock-step with
\* the recorded execution (its FeedStep is the spec action reused here)

T == Traces[tid]

Init == /\ tid \in 1..Len(Traces) /\ l = 1 /\ verdict = "ok" /\ nfin = 0 /\ drift = FALSE
        /\ ss = Reset /\ nout = 0 /\ allWs = TRUE

IsSig(k) == k \notin {"ws", "nl", "cmt1", "cmtm"}

\* ---------------- C04: text-level clauses, evaluated in one step -----------
StripSemi(p) ==   \* what strip_semicolon may remove: trailing `;` and blanks
    LET RECURSIVE Cut(_)
        Cut(i) == IF i < 1 THEN 0
                  ELSE IF IsWsChar(p[i]) \/ p[i] = 59 THEN Cut(i - 1) ELSE i
    IN SubSeq(p, 1, Cut(Len(p)))

\* finding C04-empty-hash-comment: the MySQL comment opener is `# ` (hash + blank); when the comment is empty
\* and ends the statement, strip() removes the blank and the lone `#` of the piece is an operator
EndsInEmptyHashComment(i) ==
    LET p == T.pieces[i]  s == T.stmts[i]  n == Len(p) IN
    /\ n >= 1 /\ p[n] = 35
    /\ Len(s) > LastNonWs(s, Len(s)) /\ s[LastNonWs(s, Len(s))] = 35 /\ s[LastNonWs(s, Len(s)) + 1] = 32

C04Verdict ==
    CASE Len(T.pieces) # Len(T.stmts)                                    -> "split-count-differs-from-parse"
      [] \E i \in 1..Len(T.pieces) : T.pieces[i] = <<>>                  -> "empty-piece"
      [] \E i \in 1..Len(T.pieces) : T.pieces[i] # Strip(T.stmts[i])     -> "piece-is-stripped-statement"
      [] ~IsWsSeparated(T.text, 1, T.pieces, 1)                          -> "pieces-partition-input"
      [] \E i \in 1..Len(T.pieces) : T.resplit[i] # <<T.pieces[i]>> /\ EndsInEmptyHashComment(i)
                                                                         -> "resplit:piece-ends-in-empty-hash-comment"
      [] \E i \in 1..Len(T.pieces) : T.resplit[i] # <<T.pieces[i]>>      -> "resplit-idempotent"
      [] Len(T.semi) > Len(T.pieces)                                     -> "strip-semicolon-count"
      [] OTHER                                                           -> "accepted"

\* ---------------- token-level: one step per token --------------------------
TokClause(i) ==
    LET k == T.kinds[i] IN
    CASE T.opaque_broken                                                  -> "region-body-changed-tokens-outside"
      [] T.npieces # T.npieces_orig                                        -> "region-body-changed-statement-count"
      [] T.piece[i] < 0 \/ T.piece[i] > T.npieces                         -> "piece-index-range"
      [] i > 1 /\ T.piece[i] # 0 /\ T.piece[i] < T.piece[i - 1]           -> "pieces-in-order"
      [] IsSig(k) /\ T.piece[i] = 0                                       -> "significant-token-dropped"
      [] T.annotated /\ IsSig(k) /\ T.piece[i] > nfin + 1                 -> "split-at-inner-position"
      [] T.annotated /\ IsSig(k) /\ T.piece[i] < nfin + 1                 -> "missed-split"
      [] OTHER                                                            -> "ok"

Step == /\ verdict = "ok" /\ T.mode = "tok" /\ l <= Len(T.kinds)
        /\ verdict' = TokClause(l)
        /\ nfin' = IF T.fin[l] THEN nfin + 1 ELSE nfin
        /\ LET f == FeedStep(T.kinds[l], ss)
               n2 == IF f.flush THEN nout + 1 ELSE nout
           IN /\ ss' = f.s /\ nout' = n2
              /\ allWs' = ((IF f.flush THEN TRUE ELSE allWs) /\ IsWsTok(T.kinds[l]))
              /\ drift' = (drift \/ (T.piece[l] # 0 /\ T.piece[l] # n2 + 1))
        /\ l' = l + 1 /\ UNCHANGED <<tid>>

\* the implementation-shaped model must predict the same pieces (else: drift, not a violation)
FinalTok == /\ verdict = "ok" /\ T.mode = "tok" /\ l = Len(T.kinds) + 1
            /\ drift' = (drift \/ (T.npieces # (IF l > 1 /\ ~allWs THEN nout + 1 ELSE nout)))
            /\ verdict' = IF T.nsplit # T.npieces THEN "split-count-differs-from-parse" ELSE "accepted"
            /\ l' = l + 1 /\ UNCHANGED <<tid, nfin, ss, nout, allWs>>

FinalC04 == /\ verdict = "ok" /\ T.mode = "c04" /\ l = 1
            /\ verdict' = C04Verdict
            /\ l' = 2 /\ UNCHANGED <<tid, nfin, drift, ss, nout, allWs>>

Next == Step \/ FinalTok \/ FinalC04
Spec == Init /\ [][Next]_vars

Mark == /\ (verdict = "accepted") => TLCSet(1, TLCGet(1) \cup {tid})
        /\ (verdict = "accepted" /\ drift) => PrintT(<<"DRIFT", T.id>>)
        /\ (verdict \notin {"ok", "accepted"}) => PrintT(<<"REJ", T.id, verdict, l - 1>>)
Post == PrintT(<<"ACCEPTED", Cardinality(TLCGet(1)), Len(Traces)>>)
=============================================================================
