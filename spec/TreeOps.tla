------------------------------- MODULE TreeOps -------------------------------
(* TokenList.group_tokens (sql.py:307-335) as an action on an abstract token   *)
(* tree, and the well-formedness invariants of C02 / C03 after EVERY step.     *)
(*                                                                             *)
(*   def group_tokens(self, grp_cls, start, end, include_end=True, extend=False): *)
(*       start_idx = start; start = self.tokens[start_idx]                     *)
(*       end_idx = end + include_end                                           *)
(*       if extend and isinstance(start, grp_cls):                  -- Extend  *)
(*           subtokens = self.tokens[start_idx + 1:end_idx]                    *)
(*           grp = start; grp.tokens.extend(subtokens)                         *)
(*           del self.tokens[start_idx + 1:end_idx]                            *)
(*           grp.value = str(start)                                            *)
(*       else:                                                      -- NewGroup *)
(*           subtokens = self.tokens[start_idx:end_idx]                        *)
(*           grp = grp_cls(subtokens)       (constructor: parents + value)     *)
(*           self.tokens[start_idx:end_idx] = [grp]; grp.parent = self         *)
(*       for token in subtokens: token.parent = grp                            *)
(*                                                                             *)
(* Nodes are numbers: 1 = the statement, 2..NLeaves+1 the leaves (in text      *)
(* order), further numbers the groups created.  `val[g]` is the cached text    *)
(* of a group as the sequence of leaf numbers it held when last refreshed.     *)
(* Mutant switches (vacuity guards): ReparentExtend, RefreshValue.             *)
(***************************************************************************)
EXTENDS Naturals, Sequences, FiniteSets, TLC, Json

CONSTANTS NLeaves, MaxOps, Classes, ReparentExtend, RefreshValue, Emit

Root == 1
Leaves == 2..(NLeaves + 1)

VARIABLES kids, par, cls, val, nextId, ops
vars == <<kids, par, cls, val, nextId, ops>>

Groups == DOMAIN kids

RECURSIVE LeavesOf(_, _)
LeavesOf(k, n) == IF n \in Leaves THEN <<n>>
                  ELSE LET RECURSIVE Cat(_)
                           Cat(i) == IF i > Len(k[n]) THEN <<>> ELSE LeavesOf(k, k[n][i]) \o Cat(i + 1)
                       IN Cat(1)

Init == /\ kids = (Root :> [i \in 1..NLeaves |-> i + 1])
        /\ par = [n \in {Root} \cup Leaves |-> IF n = Root THEN 0 ELSE Root]
        /\ cls = (Root :> "Statement")
        /\ val = (Root :> [i \in 1..NLeaves |-> i + 1])
        /\ nextId = NLeaves + 2 /\ ops = <<>>

\* group_tokens(g, c, s, e, extend) with 0-based inclusive s..e like the real calls (include_end = True)
GroupTokens(g, c, s, e, extend) ==
    /\ Len(ops) < MaxOps /\ g \in Groups /\ 0 <= s /\ s <= e /\ e < Len(kids[g])
    /\ LET first == kids[g][s + 1]
           doExtend == extend /\ first \in Groups /\ cls[first] = c
       IN IF doExtend
            THEN /\ e > s                                     \* something to move
                 /\ LET sub == SubSeq(kids[g], s + 2, e + 1) IN
                    /\ kids' = [kids EXCEPT ![first] = @ \o sub,
                                            ![g] = SubSeq(@, 1, s + 1) \o SubSeq(@, e + 2, Len(@))]
                    /\ par' = IF ReparentExtend THEN [n \in DOMAIN par |-> IF \E i \in 1..Len(sub) : sub[i] = n THEN first ELSE par[n]]
                              ELSE par
                    /\ val' = IF RefreshValue THEN [val EXCEPT ![first] = LeavesOf(kids', first)] ELSE val
                    /\ UNCHANGED <<cls, nextId>>
            ELSE LET sub == SubSeq(kids[g], s + 1, e + 1)
                     ng == nextId
                 IN /\ kids' = [x \in Groups \cup {ng} |->
                                  IF x = ng THEN sub
                                  ELSE IF x = g THEN SubSeq(kids[g], 1, s) \o <<ng>> \o SubSeq(kids[g], e + 2, Len(kids[g]))
                                  ELSE kids[x]]
                    /\ par' = [n \in DOMAIN par \cup {ng} |->
                                  IF n = ng THEN g ELSE IF \E i \in 1..Len(sub) : sub[i] = n THEN ng ELSE par[n]]
                    /\ cls' = [x \in Groups \cup {ng} |-> IF x = ng THEN c ELSE cls[x]]
                    /\ val' = [x \in Groups \cup {ng} |-> IF x = ng THEN LeavesOf(kids', ng) ELSE val[x]]
                    /\ nextId' = nextId + 1
    /\ ops' = Append(ops, [g |-> g, c |-> c, s |-> s, e |-> e, x |-> extend])

Next == \E g \in Groups, c \in Classes, s \in 0..(NLeaves - 1), e \in 0..(NLeaves - 1), x \in BOOLEAN : GroupTokens(g, c, s, e, x)
Spec == Init /\ [][Next]_vars

\* ---- C02 / C03 on the abstract tree, after every step ------------------------
LeavesPreserved == LeavesOf(kids, Root) = [i \in 1..NLeaves |-> i + 1]
ParentIsContainer == /\ par[Root] = 0
                     /\ \A g \in Groups : \A i \in 1..Len(kids[g]) : par[kids[g][i]] = g
EachNodeOnce == \A n \in (DOMAIN par) \ {Root} :
                   Cardinality({ <<g, i>> \in Groups \X (1..NLeaves) : i <= Len(kids[g]) /\ kids[g][i] = n }) = 1
GroupsNonEmpty == \A g \in Groups : kids[g] # <<>>
CachedValueIsText == \A g \in Groups : val[g] = LeavesOf(kids, g)

PrintOps == (Emit /\ Len(ops) = MaxOps) =>
    PrintT("@@" \o ToJson([ops |-> ops,
                           tree |-> [g \in Groups |-> [kids |-> kids[g], cls |-> cls[g]]]]))
=============================================================================
