"""Recording accessor results of parsed SqlGen programs against their
annotation spans (trace kind `accessors`; C12, C13, C18)."""
from .core import cps
from . import project


def extents(stmt, base):
    """iterative: {id(node): (lo, hi, sig_lo, sig_hi, sig_hi_nosemi)} absolute char offsets;
    sig = first/last leaf that is neither whitespace nor comment"""
    from sqlparse import tokens as T
    out = {}
    # post-order via explicit stack
    pos = base
    stack = [(stmt, 0, pos)]
    order = []
    # first pass: leaf offsets
    leafinfo = []
    for t in project.leaves(stmt):
        leafinfo.append((t, pos, pos + len(t.value)))
        pos += len(t.value)
    lo_of = {id(t): (a, b) for t, a, b in leafinfo}
    sig = {id(t): not (t.ttype in T.Whitespace or t.ttype in T.Comment) for t, _, _ in leafinfo}
    semi = {id(t): ((t.ttype is T.Punctuation and t.value == ';') or (t.ttype is T.Keyword and t.value.split()[0].upper() == 'GO'))
            for t, _, _ in leafinfo}
    # groups: compute from their leaves (iterative per group; trees here are small)
    for g, depth, par in project.groups(stmt):
        ls = project.leaves(g)
        if not ls:
            out[id(g)] = (base, base, base, base, base)
            continue
        a, b = lo_of[id(ls[0])][0], lo_of[id(ls[-1])][1]
        sl = [t for t in ls if sig[id(t)]]
        if sl:
            sa, sb = lo_of[id(sl[0])][0], lo_of[id(sl[-1])][1]
            sl2 = sl[:-1] if semi[id(sl[-1])] and len(sl) > 1 else sl
            sb2 = lo_of[id(sl2[-1])][1]
        else:
            sa = sb = sb2 = a
        out[id(g)] = (a, b, sa, sb, sb2)
    return out, pos


def _txt(x):
    return cps(x) if x is not None else []


def _join(tokens, drop_first_kw=None):
    from sqlparse import tokens as T
    toks = list(tokens)
    if drop_first_kw and toks and toks[0].ttype in T.Keyword and toks[0].normalized in drop_first_kw:
        toks = toks[1:]
    return ''.join(project.text_of(t) for t in toks)


def shape(prog, a, b):
    """features of the token range [a, b) of a program, as a '+'-joined sorted string (for
    attributing known findings): which constructs appear at the element's top level"""
    labs = prog.tokens[a:b]
    if not labs:
        return 'empty'
    depth = 0
    top = []
    for l in labs:
        if l in ('lp', 'lbr'):
            if depth == 0:
                top.append(l)
            depth += 1
        elif l in ('rp', 'rbr'):
            depth -= 1
            if depth == 0:
                top.append(l)
        elif l == 'case':
            if depth == 0:
                top.append(l)
            depth += 1
        elif l == 'end':
            depth -= 1
        elif depth == 0:
            top.append(l)
    f = set()
    has_alias = 'alias' in top
    if 'lp' in top:
        # a parenthesis that is not a call's argument list
        for k, l in enumerate(top):
            if l == 'lp' and (k == 0 or top[k - 1] != 'fname'):
                f.add('par')
    if 'case' in top:
        f.add('case')
    if 'builtin' in top or 'interval' in top:
        f.add('tl')
    if 'null' in top:
        f.add('null')
    if has_alias and 'as' not in top and top[0] in ('str', 'ph', 'null'):
        f.add('litalias')
    if 'lbr' in top:
        f.add('subscript')
    if 'op' in top or 'star' in top[1:]:
        f.add('op')
    if 'dcolon' in top:
        f.add('cast')
    if 'sign' in top:
        f.add('sign')       # a signed operand is not grouped with its sign
    if has_alias:
        f.add('alias')
    return '+'.join(sorted(f)) if f else 'plain'


def record(tid, sp):
    """sp: sqlprog.Spelled. returns trace dict"""
    import sqlparse
    from sqlparse import sql
    tr = {'id': tid, 'text': cps(sp.text), 'exc': '', 'ids': [], 'wheres': [], 'lists': [], 'fns': [], 'cases': [],
          'cmps': [], 'tls': [], 'stmts': [], 'pars': []}
    try:
        stmts = sqlparse.parse(sp.text)
    except Exception as e:  # noqa
        tr['exc'] = type(e).__name__
        return tr
    nodes = []     # (cls name, node, ext)
    base = 0
    stmt_ext = []
    for s in stmts:
        ext, end = extents(s, base)
        for g, d, par in project.groups(s):
            nodes.append((type(g).__name__, g, ext[id(g)]))
        stmt_ext.append((base, end, s))
        base = end
    prog = sp.prog

    def overlapping(cls, c):
        return [(n, e) for k, n, e in nodes if k == cls and e[2] < c[1] and c[0] < e[3]]
    for i, (kind, a, b, par) in enumerate(prog.spans):
        c = sp.span_chars(i)
        if c is None:
            continue
        if kind.startswith('stmt:'):
            got = ''
            for (lo, hi, s) in stmt_ext:
                if lo <= c[0] < hi:
                    try:
                        got = s.get_type()
                    except Exception as e:  # noqa
                        got = '<<%s>>' % type(e).__name__
                    break
            cte_comment = False
            if prog.tokens[a] == 'with':
                depth = 0
                for k in range(a + 1, b):
                    lab = prog.tokens[k]
                    if lab == 'lp':
                        depth += 1
                    elif lab == 'rp':
                        depth -= 1
                    elif depth == 0 and lab in ('select', 'insert', 'update', 'delete'):
                        # text between the end of WITH and the main DML keyword, outside the CTE bodies
                        d2 = 0
                        for m in range(a, k):
                            gap = sp.text[sp.tokspans[m][1]:sp.tokspans[m + 1][0]]
                            if d2 == 0 or prog.tokens[m + 1] == 'lp' or prog.tokens[m] == 'rp':
                                if '/*' in gap or '--' in gap or '#' in gap:
                                    cte_comment = True
                            if prog.tokens[m + 1] == 'lp':
                                d2 += 1
                            elif prog.tokens[m + 1] == 'rp':
                                d2 -= 1
                        break
            tr['stmts'].append({'exp': kind[5:], 'got': got, 'lead': cps(sp.words[a]), 'cte_comment': cte_comment})
        elif kind == 'id':
            ch = {prog.spans[j][0]: j for j in prog.children(i)}
            exp = {'n': _txt(sp.span_text(ch['n'])) if 'n' in ch else [], 'q': _txt(sp.span_text(ch['q'])) if 'q' in ch else [],
                   'a': _txt(sp.span_text(ch['a'])) if 'a' in ch else [], 'has_q': 'q' in ch, 'has_a': 'a' in ch,
                   'lo': c[0], 'hi': c[1]}
            cands = []
            for n, e in overlapping('Identifier', c):
                try:
                    r = {'lo': e[2], 'hi': e[3], 'real': n.get_real_name(), 'parent': n.get_parent_name(),
                         'alias': n.get_alias(), 'name': n.get_name(), 'has_alias': bool(n.has_alias())}
                except Exception as ex:  # noqa
                    r = {'lo': e[2], 'hi': e[3], 'real': '<<%s>>' % type(ex).__name__, 'parent': None, 'alias': None,
                         'name': None, 'has_alias': False}
                cands.append({'lo': r['lo'], 'hi': r['hi'],
                              'real': _txt(r['real']), 'real_none': r['real'] is None,
                              'parent': _txt(r['parent']), 'parent_none': r['parent'] is None,
                              'alias': _txt(r['alias']), 'alias_none': r['alias'] is None,
                              'name': _txt(r['name']), 'name_none': r['name'] is None,
                              'has_alias': r['has_alias']})
            ctx_kind = prog.spans[par][0] if par >= 0 else ''
            tr['ids'].append({'exp': exp, 'cands': cands, 'ctx': ctx_kind})
        elif kind == 'where':
            tr['wheres'].append({'lo': c[0], 'hi': c[1],
                                 'cands': [{'lo': e[2], 'hi': e[3], 'hi2': e[4]} for n, e in overlapping('Where', c)]})
        elif kind == 'list':
            items = [sp.span_text(j) for j in prog.children(i, 'item')]
            if len(items) < 2:
                continue
            cands = []
            for n, e in overlapping('IdentifierList', c):
                try:
                    got = [project.text_of(t) for t in n.get_identifiers()]
                except Exception as ex:  # noqa
                    got = ['<<%s>>' % type(ex).__name__]
                cands.append({'lo': e[2], 'hi': e[3], 'items': [cps(x) for x in got]})
            shapes = [shape(prog, prog.spans[j][1], prog.spans[j][2]) for j in prog.children(i, 'item')]
            tr['lists'].append({'lo': c[0], 'hi': c[1], 'items': [cps(x) for x in items], 'cands': cands, 'shapes': shapes})
        elif kind == 'fn':
            argspans = [j for j in prog.descendants(i, 'arg') if prog.spans[prog.spans[j][3]][0] == 'par'
                        and prog.spans[prog.spans[j][3]][3] == i]
            args = [sp.span_text(j) for j in argspans]
            shapes = [shape(prog, prog.spans[j][1], prog.spans[j][2]) for j in argspans]
            star = any(prog.tokens[k] == 'star' for k in range(a, b)) and not args
            cands = []
            for n, e in overlapping('Function', c):
                try:
                    got = [project.text_of(t) for t in n.get_parameters()]
                except Exception as ex:  # noqa
                    got = ['<<%s>>' % type(ex).__name__]
                cands.append({'lo': e[2], 'hi': e[3], 'params': [cps(x) for x in got]})
            tr['fns'].append({'lo': c[0], 'hi': c[1], 'args': [cps(x) for x in args], 'star': star, 'cands': cands,
                              'shapes': shapes})
        elif kind == 'case':
            parts = []
            for j in prog.children(i):
                k2 = prog.spans[j][0]
                if k2 in ('when', 'then', 'else'):
                    parts.append({'k': k2, 'text': cps(sp.span_text(j))})
            cands = []
            for n, e in overlapping('Case', c):
                got = []
                try:
                    for cond, val in n.get_cases():
                        if cond is not None:
                            got.append({'k': 'when', 'text': cps(_join(cond, ('WHEN',)))})
                            got.append({'k': 'then', 'text': cps(_join(val, ('THEN',)))})
                        else:
                            got.append({'k': 'else', 'text': cps(_join(val, ('ELSE',)))})
                except Exception as ex:  # noqa
                    got = [{'k': 'exc', 'text': cps(type(ex).__name__)}]
                cands.append({'lo': e[2], 'hi': e[3], 'parts': got})
            tr['cases'].append({'lo': c[0], 'hi': c[1], 'parts': parts, 'cands': cands})
        elif kind == 'cmp':
            ch = {prog.spans[j][0]: j for j in prog.children(i)}
            cands = []
            for n, e in overlapping('Comparison', c):
                try:
                    cands.append({'lo': e[2], 'hi': e[3], 'l': cps(project.text_of(n.left)), 'r': cps(project.text_of(n.right))})
                except Exception as ex:  # noqa
                    cands.append({'lo': e[2], 'hi': e[3], 'l': cps('<<exc>>'), 'r': []})
            tr['cmps'].append({'lo': c[0], 'hi': c[1], 'l': cps(sp.span_text(ch['l'])), 'r': cps(sp.span_text(ch['r'])),
                               'cands': cands,
                               'shapes': [shape(prog, prog.spans[ch['l']][1], prog.spans[ch['l']][2]),
                                          shape(prog, prog.spans[ch['r']][1], prog.spans[ch['r']][2])]})
        elif kind == 'tl':
            tr['tls'].append({'lo': c[0], 'hi': c[1],
                              'cands': [{'lo': e[2], 'hi': e[3]} for n, e in overlapping('TypedLiteral', c)]})
    return tr
