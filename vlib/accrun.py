"""Accessors.tla: design-level run over the written reference shapes (C12) and the binding of the
implementation-shaped accessor operators to the real sqlparse.sql classes (token lists rebuilt from
real Token / Identifier / Function objects, the five accessors compared answer by answer)."""
from . import tlc


def cfg(mode, maxlen, emit):
    return ('SPECIFICATION Spec\nCONSTANTS\n Mode = "%s"\n MaxLen = %d\n Emit = %s\nINVARIANT WrittenPartsReturned\nINVARIANT PrintDone\n'
            'CHECK_DEADLOCK FALSE\n' % (mode, maxlen, 'TRUE' if emit else 'FALSE'))


def build(t):
    from sqlparse import sql, tokens as T
    ty = t['ty']
    if ty in ('ident', 'func', 'grp'):
        cls = {'ident': sql.Identifier, 'func': sql.Function, 'grp': sql.Parenthesis}[ty]
        return cls([build(k) for k in t['kids']])
    tt = {'name': T.Name, 'sym': T.String.Symbol, 'wild': T.Wildcard, 'nameb': T.Name.Builtin, 'as': T.Keyword, 'kw': T.Keyword,
          'kwd': T.Keyword.DML, 'dot': T.Punctuation, 'ws': T.Whitespace, 'nl': T.Newline, 'other': T.Punctuation}[ty]
    return sql.Token(tt, ''.join(t['val']))


def real_answers(ks):
    from sqlparse import sql
    node = sql.Identifier([build(t) for t in ks])

    def opt(f):
        try:
            v = f()
        except Exception as e:  # noqa
            return {'some': True, 'v': ['<<%s>>' % type(e).__name__]}
        return {'some': v is not None, 'v': list(v) if v is not None else []}
    try:
        ha = bool(node.has_alias())
    except Exception:  # noqa
        ha = None
    return {'real': opt(node.get_real_name), 'parent': opt(node.get_parent_name), 'alias': opt(node.get_alias),
            'name': opt(node.get_name), 'has_alias': ha}


def run(ctx, quick):
    res = tlc.run(ctx.workdir, 'Accessors', cfg('shapes', 1, False), workers=8, label='Accessors_shapes', coverage=False, timeout=900,
                  allow_violation=True)
    ctx.add_tlc(res, 'Accessors.tla: every written reference shape (qualifier x quoting x alias x AS x whitespace) returns its written parts')
    if res.violated:
        ctx.unrealised('Accessors.tla: WrittenPartsReturned fails at design level (%s); the trace checks decide on the real code' % res.violated)
    n = bad = 0
    runs = [dict(simulate=None, maxlen=3)] + ([dict(simulate=1500, maxlen=6)] if quick else [dict(simulate=None, maxlen=4), dict(simulate=20000, maxlen=7)])
    for i, r in enumerate(runs):
        res = tlc.run(ctx.workdir, 'Accessors', cfg('lists', r['maxlen'], True), workers=1, label='Accessors_lists_%d' % i, coverage=False,
                      timeout=1500, simulate=('num=%d' % r['simulate']) if r['simulate'] else None,
                      depth=(r['maxlen'] + 2) if r['simulate'] else None, seed=(ctx.seed + 3) if r['simulate'] else None)
        ctx.add_tlc(res, 'Accessors.tla token lists len<=%d %s' % (r['maxlen'], 'simulate' if r['simulate'] else 'exhaustive'))
        for p in res.printed:
            got = real_answers(p['ks'])
            n += 1
            ctx.evals()
            want = p['ans']
            if got != want:
                bad += 1
                if bad <= 3:
                    ctx.drift('Accessors.tla predicts %s for the token list %s, the real accessors give %s'
                              % (want, [(t['ty'], ''.join(t['val'])) for t in p['ks']], got))
    ctx.cov['accessor_lists_replayed'] = n
    ctx.cov['accessor_model_disagreements'] = bad
    return n, bad
