"""C01 - lexer total and lossless."""
import glob
import os
import random

from .. import tlc, tracecheck, extract
from ..core import REPO, uncps
from ..lexrec import (LexRecorder, sigma_strings, SIGMA, SIGMA_QUICK,
                      random_unicode, opener_mixes, notable_inputs, long_token_inputs, rule_samples, compat_keyword_inputs)

MC = """---- MODULE MC_LexScan ----
EXTENDS LexScan
MinWv == %s
MaxWv == %s
====
"""
CFG = """SPECIFICATION %s
CONSTANTS
  N = %d
  NRules = %d
  MinW <- MinWv
  MaxW <- MaxWv
  SkipDelta = %d
INVARIANT Tiles
INVARIANT NonEmptyTok
INVARIANT ErrorIsOneChar
INVARIANT NoCrash
INVARIANT NoOverrun
INVARIANT Complete
PROPERTY Progress
%s
"""


def width_classes(n):
    rules = extract.rule_table()
    cls = sorted({(lo, min(hi, n + 1)) for _, _, lo, hi in rules})
    return rules, cls


def model(ctx, n, skipdelta=0, live=False, allow=False, label=None):
    rules, cls = width_classes(n)
    mc = MC % (tlc.tla_val([c[0] for c in cls]), tlc.tla_val([c[1] for c in cls]))
    cfg = CFG % ('FairSpec' if live else 'Spec', n, len(cls), skipdelta,
                 'PROPERTY Terminates' if live else '')
    return tlc.run(ctx.workdir, 'MC_LexScan', cfg, extra_modules={'MC_LexScan': mc},
                   workers=8, timeout=300, label=label or ('LexScan_N%d_d%d' % (n, skipdelta)),
                   allow_violation=allow), rules, cls


def repo_texts():
    out = []
    for p in sorted(glob.glob(os.path.join(REPO, 'tests', 'files', '*.sql'))):
        try:
            with open(p, 'rb') as f:
                b = f.read()
            try:
                out.append(b.decode('utf-8'))
            except UnicodeDecodeError:
                out.append(b.decode('latin-1'))
        except OSError:
            pass
    return out


def run(ctx):
    quick = ctx.tier == 'quick'
    rng = random.Random(ctx.seed)
    # ---- M: design-level model checking of the scan loop --------------
    res, rules, cls = model(ctx, 6 if quick else 8, allow=True)
    ctx.add_tlc(res, 'LexScan exhaustive, width classes %s' % (cls,))
    model_cex = res.violated
    res2, _, _ = model(ctx, 4, live=True, allow=True, label='LexScan_live')
    ctx.add_tlc(res2, 'LexScan liveness (Terminates under WF)')
    model_cex = model_cex or res2.violated
    # vacuity guard: the mutated skip count must be caught by the same invariants
    res3, _, _ = model(ctx, 3, skipdelta=1, allow=True, label='LexScan_mutant')
    if not res3.violated:
        raise tlc.MachineryError('vacuity guard: SkipDelta=1 not detected by the LexScan invariants')
    ctx.notes.append('vacuity guard ok: SkipDelta=1 violates %s' % res3.violated)
    for a in ('Match', 'ErrorChar'):
        if not res.violated and res.coverage.get(a, 0) == 0:
            raise tlc.MachineryError('action %s never taken in LexScan' % a)

    # ---- inputs -------------------------------------------------------
    texts = []
    texts += list(sigma_strings(SIGMA_QUICK, 3) if quick else sigma_strings(SIGMA, 3))
    if not quick:
        texts += list(sigma_strings(SIGMA_QUICK, 4))
    # concretise: replace representatives by random class members happens in C14;
    # here: random unicode, opener mixes, repository fixtures
    texts += [random_unicode(rng, 80) for _ in range(3000 if quick else 60000)]
    mixes = list(opener_mixes(2 if quick else 3))
    if not quick and len(mixes) > 60000:
        mixes = rng.sample(mixes, 60000)
    texts += mixes
    texts += notable_inputs() + long_token_inputs()
    texts += rule_samples(rng, 10 if quick else 60)
    texts += compat_keyword_inputs(rng, 40 if quick else 400)
    fixtures = repo_texts()
    texts += [t[:400] for t in fixtures] + [t[i:i + 200] for t in fixtures for i in range(0, min(len(t), 2000), 200)]
    rec = LexRecorder()
    if not rec.instrumented:
        ctx.drift('lexer rule list is not a list of (matcher, type) pairs; observable-only traces')
    traces = []
    for i, t in enumerate(texts):
        tr = rec.record(t, i)
        traces.append(tr)
        ctx.evals()
        if len(tr['ev']) >= 2 or any(e['err'] for e in tr['ev']):
            ctx.nontrivial(t)
    nplain = sum(1 for t in traces if t['plain'])
    if nplain:
        ctx.drift('%d traces fell back to observable-only form (instrumented run differs from tokenize())' % nplain)
    for tr in traces[1000:1004]:
        ctx.sample({'text': uncps(tr['text']), 'tokens': [[e['ty'], uncps(e['val']), e['rule']] for e in tr['ev']]})
    # drop the type name (TLC does not need it) to keep files small
    for tr in traces:
        for e in tr['ev']:
            e.pop('ty', None)
    rej = tracecheck.validate(ctx, 'TraceLexScan', traces, chunks=16)
    for tid, (clause, step) in sorted(rej.items(), key=lambda kv: (len(texts[kv[0]]), kv[0])):
        t = texts[tid]
        ctx.violation({'input_cps': [ord(c) for c in t], 'clause': clause, 'step': step,
                       'tags': ['lex:' + clause]},
                      'tokenize(%r): clause %s fails at token %d' % (t[:60], clause, step))
    # model counterexample without a realisation on the code
    if model_cex and not rej:
        ctx.unrealised('LexScan violates %s with the extracted widths but no real input reproduced it' % model_cex)
    ctx.cov['rule_table_fingerprint'] = __import__('hashlib').sha1(repr(rules).encode()).hexdigest()[:12]
    ctx.assumptions += ['Python re implements the documented regex semantics',
                        'sre getwidth() bounds are correct (used only by the design-level model)']
    return ctx.finish(
        rule='inputs: exhaustive strings over %d class representatives (len<=3%s), random Unicode, opener/terminator mixes, repo fixtures; '
             'non-trivial = distinct input with >=2 tokens or an Error token; every trace validated by TLC against TraceLexScan'
             % (len(SIGMA_QUICK if quick else SIGMA), '' if quick else '; len<=4 over 22'),
        extra={'checker_cmd': 'tlc MC_LexScan / TraceLexScan'})


def replay(rec):
    """re-run one stored case against the current tree; exit 1 iff it still fails"""
    from ..core import Ctx
    ctx = Ctx('C01', 'quick', 'model_checking')
    t = ''.join(chr(c) for c in rec['case']['input_cps'])
    tr = LexRecorder().record(t, 0)
    for e in tr['ev']:
        e.pop('ty', None)
    rej = tracecheck.validate(ctx, 'TraceLexScan', [tr], chunks=1)
    import shutil
    shutil.rmtree(ctx.workdir, ignore_errors=True)
    if rej:
        print('VIOLATION property=C01 replay=%s' % rec.get('replay', '?'))
        print('  still fails: %s' % (rej,))
        return 1
    print('replay passes on the current tree')
    return 0
