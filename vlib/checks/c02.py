"""C02 - parse() is text-preserving."""
import random

from .. import treerec, treefam
from ..core import cps
from ..lexrec import sigma_strings, SIGMA_QUICK, random_unicode, notable_inputs, long_token_inputs, rule_samples, compat_keyword_inputs
from .c01 import repo_texts

LEVEL = 'model_checking'
PROPS = ['C02']
PID = 'C02'
NAV = False


def inputs(ctx, quick, rng):
    texts = [t for t, _, _ in treefam.tag_inputs(ctx, quick, rng)]
    if quick:
        texts = texts[::3]
    texts += treefam.script_inputs(ctx, quick, rng, PID)
    texts += list(sigma_strings(SIGMA_QUICK, 2 if quick else 3))
    texts += [random_unicode(rng, 50) for _ in range(800 if quick else 6000)]
    texts += notable_inputs() + [t for t in long_token_inputs() if len(t) < 6000 and ' ' * 50 not in t]
    texts += rule_samples(rng, 8 if quick else 40)
    texts += compat_keyword_inputs(rng, 30 if quick else 300)
    fx = repo_texts()
    texts += [t[:300] for t in fx] + [t[i:i + 150] for t in fx for i in range(0, min(len(t), 1500), 150)]
    return texts


def run(ctx):
    quick = ctx.tier == 'quick'
    rng = random.Random(ctx.seed)
    texts = inputs(ctx, quick, rng)
    traces = []
    for t in texts:
        tr = treerec.parse_trace(len(traces), t, rng, nav=NAV and len(t) <= 60, strs=True)
        traces.append(tr)
        ctx.evals()
        if any(n['cls'] not in ('', 'Statement') for st in tr['stmts'] for n in st['nodes']):
            ctx.nontrivial(t)
    for t in texts[5:8]:
        ctx.sample(t)
    rej = treefam.validate(ctx, traces, PROPS, 'TraceParse_' + PID)
    for tid, (clause, step) in sorted(rej.items(), key=lambda kv: len(texts[kv[0]])):
        t = texts[tid]
        ctx.violation({'text': t, 'input_cps': cps(t), 'clause': clause, 'tags': [clause]},
                      'parse(%r): %s (statement %d)' % (t[:100], clause, step))
    ctx.cov['nav_queries'] = sum(len(st['nav']) for tr in traces for st in tr['stmts'])
    return ctx.finish(
        rule='inputs: TLC-generated delimiter sequences and ScriptGen scripts (all constructs, junk) spelled, exhaustive short class strings, '
             'random Unicode, repo fixtures; the projected node table of every statement validated by TLC (TraceParse.tla, Props=%s); '
             'non-trivial = distinct input whose tree has at least one group below the statement' % PROPS)


def replay(rec):
    return treefam.replay_parse(PID, PROPS, rec, nav=NAV)
