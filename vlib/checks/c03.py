"""C03 - grouping is purely structural and yields a well-formed token tree."""
import random

from .. import treerec, treefam
from ..core import cps
from ..lexrec import sigma_strings, SIGMA_QUICK, random_unicode, notable_inputs, long_token_inputs
from .c01 import repo_texts

LEVEL = 'model_checking'
PROPS = ['C03']
PID = 'C03'
NAV = True


def inputs(ctx, quick, rng):
    texts = [t for t, _, _ in treefam.tag_inputs(ctx, quick, rng)]
    if quick:
        texts = texts[::5]
    texts += treefam.script_inputs(ctx, quick, rng, PID)
    texts += list(sigma_strings(SIGMA_QUICK, 2 if quick else 3))
    texts += [random_unicode(rng, 50) for _ in range(300 if quick else 6000)]
    texts += notable_inputs() + [t for t in long_token_inputs() if len(t) < 6000 and ' ' * 50 not in t]
    # every word of the keyword tables between two operands: whatever a grouping pass does with the word (operator,
    # comparison, ...), the leaf stays the lexer's token (only the wildcard/operator re-typing is allowed)
    from .. import extract
    kws = sorted(extract.all_keyword_words())
    texts += ['a %s b' % w.lower() for w in kws] + ['select 5 %s 2 from t' % w for w in (kws[::3] if quick else kws)]
    if PID == 'C03':
        from .. import infixrun
        texts += infixrun.assignment_texts(ctx, 1500 if quick else 12000, ctx.seed + 17, rng)
    fx = repo_texts()
    texts += [t[:300] for t in fx] + [t[i:i + 150] for t in fx for i in range(0, min(len(t), 1500), 150)]
    return texts


def run(ctx):
    quick = ctx.tier == 'quick'
    rng = random.Random(ctx.seed)
    texts = inputs(ctx, quick, rng)
    traces = []
    for t in texts:
        tr = treerec.parse_trace(len(traces), t, rng, nav=NAV and len(t) <= 60 and (quick or len(traces) % 4 == 0), strs=True)
        traces.append(tr)
        ctx.evals()
        if any(n['cls'] not in ('', 'Statement') for st in tr['stmts'] for n in st['nodes']):
            ctx.nontrivial(t)
    for t in texts[5:8]:
        ctx.sample(t)
    if PID == 'C03':
        from .. import tlc as _tlc
        # _group (infix joiner) with its real index bookkeeping keeps the live list well-formed for every token sequence
        for ext in ('TRUE', 'FALSE'):
            for mode in ('pn', 'semi'):
                gcfg = ('SPECIFICATION Spec\nCONSTANTS\n MaxLen = %d\n Extend = %s\n PostMode = "%s"\n'
                        'INVARIANT NoIndexError\nINVARIANT KidsTile\nINVARIANT GroupEdges\n' % (5 if quick else 7, ext, mode)).replace('CONSTANTS\n', 'CONSTANTS\n Emit = FALSE\n')
                # the assignment-style post is exhaustive up to 6 only: from 7 tokens on the index bookkeeping of _group can produce a
                # reversed range (DESIGN 8 #16; group_tokens absorbs it with extend=True) and the model's NoIndexError flags that
                if mode == 'semi':
                    gcfg = gcfg.replace('MaxLen = 7', 'MaxLen = 6')
                gr = _tlc.run(ctx.workdir, 'GroupInfix', gcfg, workers=8, label='GroupInfix_%s_%s' % (ext, mode), coverage=False, timeout=900)
                ctx.add_tlc(gr, 'GroupInfix exhaustive (Extend=%s, post=%s)' % (ext, mode))
        from .. import infixrun
        infixrun.replay(ctx, 5 if quick else 6)
        from .. import treeops
        treeops.model_check(ctx, 4 if quick else 5, 3, 'TreeOps')
        nl = 6
        for beh in treeops.behaviours(ctx, nl, 4, 'TreeOps_sim', 400 if quick else 8000, ctx.seed + 11):
            stmt, msg = treeops.apply_real(beh, nl)
            if msg:
                ctx.drift('TreeOps.tla vs group_tokens: ' + msg)
            texts.append('<group_tokens %s>' % [(o['g'], o['c'], o['s'], o['e'], o['x']) for o in beh['ops']])
            traces.append(treeops.stmt_trace(len(traces), stmt))
            ctx.evals()
            ctx.nontrivial(texts[-1])
    rej = treefam.validate(ctx, traces, PROPS, 'TraceParse_' + PID)
    for tid, (clause, step) in sorted(rej.items(), key=lambda kv: len(texts[kv[0]])):
        t = texts[tid]
        ctx.violation({'text': t, 'input_cps': cps(t), 'clause': clause, 'tags': [clause]},
                      'parse(%r): %s (statement %d)' % (t[:100], clause, step))
    ctx.cov['nav_queries'] = sum(len(st['nav']) for tr in traces for st in tr['stmts'])
    return ctx.finish(
        rule='inputs: TLC-generated delimiter sequences and ScriptGen scripts (all constructs, junk) spelled, exhaustive short class strings, '
             'random Unicode, repo fixtures; the projected node table of every statement validated by TLC (TraceParse.tla, Props=%s); '
             'non-trivial = distinct input whose tree has at least one group below the statement' % PROPS)


def replay(rec):
    return treefam.replay_parse(PID, PROPS, rec, nav=NAV)
