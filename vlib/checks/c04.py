"""C04 - split() partitions the input and agrees with parse()."""
import random

from .. import tlc, tracecheck, splitfam
from ..core import MachineryError, cps, uncps
from ..project import text_of
from ..spell import spell, checked_pools
from ..lexrec import sigma_strings, SIGMA_QUICK, random_unicode, opener_mixes
from .c01 import repo_texts
from .c17 import ALL as PROC_ALL

LEVEL = 'model_checking'
EVERYTHING = sorted(set(PROC_ALL + ['caseexpr', 'parensemi', 'txbegin', 'junk', 'plainkw']))


def c04_trace(tid, text):
    import sqlparse
    stmts = [text_of(s) for s in sqlparse.parse(text)]
    pieces = sqlparse.split(text)
    resplit = [sqlparse.split(p) for p in pieces]
    semi = sqlparse.split(text, strip_semicolon=True)
    return {'id': tid, 'mode': 'c04', 'text': cps(text), 'stmts': [cps(s) for s in stmts],
            'pieces': [cps(p) for p in pieces], 'resplit': [[cps(x) for x in r] for r in resplit],
            'semi': [cps(p) for p in semi],
            # token-mode fields unused in this mode
            'kinds': [], 'piece': [], 'npieces': len(stmts), 'nsplit': len(pieces), 'annotated': False,
            'fin': [], 'opaque_broken': False, 'npieces_orig': len(stmts)}


def run(ctx):
    quick = ctx.tier == 'quick'
    rng = random.Random(ctx.seed)
    depth = 4 if quick else 5
    # ---- M: the running splitter equals a fresh one at every statement start
    cfg = splitfam.lockstep_cfg(EVERYTHING, depth, inv=False, fresh=True)
    res = tlc.run(ctx.workdir, 'SplitLockstep', cfg, workers=8, timeout=600, label='C04_fresh', allow_violation=True)
    ctx.add_tlc(res, 'SplitLockstep FreshAgrees, all constructs + junk, depth<=%d' % depth)
    if res.violated:
        ctx.unrealised('FreshAgrees fails in the model (%s); deciding on real traces only' % res.violated)
    cfg = splitfam.lockstep_cfg(EVERYTHING, 3, inv=False, fresh=True, reset_complete=False)
    res2 = tlc.run(ctx.workdir, 'SplitLockstep', cfg, workers=4, timeout=300, label='C04_fresh_mutant', allow_violation=True)
    if not res2.violated:
        raise MachineryError('vacuity guard: incomplete reset not detected by FreshAgrees')
    ctx.notes.append('vacuity guard ok: ResetComplete=FALSE violates %s' % res2.violated)
    # ---- inputs ---------------------------------------------------------
    checked_pools()
    texts = []
    scripts = splitfam.emit_scripts(ctx, EVERYTHING, depth, 'C04_emit', simulate=500 if quick else 6000,
                                    maxlen=28 if quick else 40, minlen=2, seed=ctx.seed * 13 + 5)
    scripts += splitfam.emit_scripts(ctx, ['junk'], 2, 'C04_emit_junk', simulate=800 if quick else 6000,
                                     maxlen=14 if quick else 20, softlen=12 if quick else 18, minlen=2, seed=ctx.seed * 17 + 9)
    cover = splitfam.cover_scripts(ctx, EVERYTHING, 4, 'C04_cover', transitions=not quick)
    for i, c in enumerate(cover):
        for j in (range(len(splitfam.PROBES)) if not quick or i % 2 == 0 else [i]):
            scripts.append({'hist': splitfam.with_probe(c['hist'], j)})
    ctx.cov['cover_scripts'] = len(cover)
    seen = set()
    for s in scripts:
        key = tuple(h['lab'] for h in s['hist'])
        if key in seen:
            continue
        seen.add(key)
        texts.append(spell(s['hist'], rng, canonical=False))
    nscripts = len(texts)
    texts += list(sigma_strings(SIGMA_QUICK, 2 if quick else 3))
    texts += [random_unicode(rng, 60) for _ in range(1000 if quick else 8000)]
    mixes = list(opener_mixes(2))
    texts += mixes if not quick else mixes[::2] + ['select 1; # ', ';# ']
    # left-context independence at a statement start: every opener (pair of openers in the thorough tier) directly
    # behind the separator of the previous statement, followed by material containing a `;` - the piece is lexed
    # once in context and once on its own (resplit)
    from ..lexrec import OPENERS
    import itertools as _it
    heads = list(OPENERS) if quick else [a + b for a, b in _it.product(OPENERS, repeat=2)] + list(OPENERS)
    for o in heads:
        for sep in ('\n', ' ', '\r\n', ''):
            for suf in (';b', 'x;b', ' ;b'):
                texts.append('a;' + sep + o + suf)
    fx = repo_texts()
    texts += [t[:300] for t in fx]
    texts += ['select 1;\n' + t[:250] + ';\nselect 2' for t in fx]
    traces = []
    for i, t in enumerate(texts):
        try:
            tr = c04_trace(i, t)
        except Exception as e:  # totality is C07's business; here: not explorable
            ctx.notes.append('input %r raised %s (left to C07)' % (t[:40], type(e).__name__)) if len(ctx.notes) < 5 else None
            continue
        traces.append(tr)
        ctx.evals()
        if len(tr['pieces']) >= 2:
            ctx.nontrivial(t)
    for tr in traces[:2] + traces[nscripts - 2:nscripts]:
        ctx.sample({'text': uncps(tr['text']), 'pieces': [uncps(p) for p in tr['pieces']]})
    rej = tracecheck.validate(ctx, 'TraceSplit', traces, label='TraceSplit_C04')
    byid = {tr['id']: tr for tr in traces}
    for tid, (clause, step) in sorted(rej.items(), key=lambda kv: len(texts[kv[0]])):
        t = texts[tid]
        ctx.violation({'text': t, 'input_cps': cps(t), 'clause': clause, 'tags': ['c04:' + clause],
                       'pieces': [uncps(p) for p in byid[tid]['pieces']]},
                      'split(%r): %s' % (t[:100], clause))
    ctx.assumptions += ['str.strip() whitespace set as in Text.tla IsWsChar']
    return ctx.finish(
        rule='inputs: state cover (quick) / transition cover (thorough) of the lock-step product graph, each completed and followed by probe statements; TLC-simulated scripts (all constructs, junk sequences) spelled with random gaps, exhaustive short class strings, random Unicode, '
             'repo fixtures; per input parse(), split(), split(piece) for every piece, split(strip_semicolon); non-trivial = distinct input with >=2 pieces')


def replay(rec):
    from ..core import Ctx
    import shutil
    ctx = Ctx('C04', 'quick', LEVEL)
    t = uncps(rec['case']['input_cps'])
    rej = tracecheck.validate(ctx, 'TraceSplit', [c04_trace(0, t)], chunks=1)
    shutil.rmtree(ctx.workdir, ignore_errors=True)
    if rej:
        print('VIOLATION property=C04 replay=%s' % rec.get('replay', '?'))
        print('  still fails: %s' % (rej,))
        return 1
    print('replay passes on the current tree')
    return 0
