"""C05 - statements end exactly at top-level semicolons; opaque regions never split."""
import random

from .. import tlc, tracecheck, splitfam
from ..core import MachineryError
from ..spell import spell, checked_pools, POOLS

LEVEL = 'model_checking'
PLAIN = ['caseexpr', 'parensemi', 'createplain', 'txbegin', 'plainkw']

# replacement bodies for opaque regions (DESIGN C05): none contains the region's own terminator
BODIES = ["it''s;", "'';''", '"";', '``;', ';', 'a;b', '; select 1;', "x'y", 'x"y', '`', '/*', '*/', '--', ' BEGIN ', 'END;', 'GO',
          '\n;\n', '(', ')', ';)', '$$', '$a$', '# ', '', ' ', 'é;', '\x00;', ';;;;']


def region_variants(text, rng, k=3):
    """find opaque regions in the lexed text and yield (variant_text, region_kind)
    with the body replaced; the regions' delimiters are kept."""
    from sqlparse import lexer, tokens as T
    toks = list(lexer.tokenize(text))
    out = []
    off = 0
    spans = []
    for tt, v in toks:
        kind = None
        if tt is T.String.Single and len(v) >= 2 and v[0] == "'" and v[-1] == "'":
            kind, pre, post, forbid = 'str', "'", "'", ["'", '\\']
        elif tt is T.String.Symbol and len(v) >= 2 and v[0] == '"' and v[-1] == '"':
            kind, pre, post, forbid = 'dq', '"', '"', ['"', '\\']
        elif tt is T.Name and len(v) >= 2 and v[0] == '`' and v[-1] == '`':
            kind, pre, post, forbid = 'bt', '`', '`', ['`']
        elif tt is T.Comment.Multiline and v.startswith('/*') and v.endswith('*/') and not v.startswith('/*+'):
            kind, pre, post, forbid = 'cmtm', '/*', '*/', ['*/', '+']
        elif tt is T.Comment.Single and v.startswith('--') and not v.startswith('--+'):
            nlx = v[len(v.rstrip('\r\n')):]
            kind, pre, post, forbid = 'cmt1', '--', nlx, ['\n', '\r', '+']
        elif tt is T.Literal and v.startswith('$') and len(v) >= 4:
            tag = v[:v.index('$', 1) + 1]
            if v.endswith(tag) and len(v) >= 2 * len(tag):
                kind, pre, post, forbid = 'dollar', tag, tag, [tag, '$']
        if kind:
            spans.append((off, off + len(v), kind, pre, post, forbid))
        off += len(v)
    for (a, b, kind, pre, post, forbid) in spans:
        q = pre if kind in ('str', 'dq', 'bt') else None
        cands = [x for x in BODIES if not any(f in (x.replace(q + q, '') if q else x) for f in forbid)]
        if kind in ('str', 'dq') and q not in text[b:]:
            # a body ENDING in a backslash: `\'` could be an escaped quote, but when no further quote character follows in
            # the text the only reading is "backslash, then the closing quote" (the rule backtracks) - still one region
            cands = cands + ['C:\\tmp;D:\\', ';\\']
        if kind == 'cmt1':
            cands = [x for x in cands if not x.startswith('+')]
        if kind == 'cmtm':
            cands = [x for x in cands if not x.endswith('*') and not x.startswith('/')]
        if kind == 'dollar':
            cands = [x for x in cands if '$' not in x]
        for body in rng.sample(cands, min(k, len(cands))):
            out.append((text[:a] + pre + body + post + text[b:], kind, (a, b)))
    return out


def run(ctx):
    quick = ctx.tier == 'quick'
    rng = random.Random(ctx.seed)
    depth = 5 if quick else 6
    res, wit = splitfam.model_check(ctx, PLAIN, depth, 'C05_lockstep_plain')
    for a in ('Step', 'Stop'):
        if res.coverage.get(a, 0) == 0:
            raise MachineryError('lock-step action %s never taken' % a)
    checked_pools()
    scripts = []
    n = 800 if quick else 8000
    scripts += splitfam.emit_scripts(ctx, PLAIN, depth, 'C05_emit', simulate=n,
                                     maxlen=30 if quick else 50, minlen=3, seed=ctx.seed * 11 + 3)
    scripts += splitfam.emit_scripts(ctx, ['parensemi'], 3, 'C05_emit_exh', exhaustive_len=5 if quick else 6, softlen=4 if quick else 5)
    cover = splitfam.cover_scripts(ctx, PLAIN, 5, 'C05_cover', transitions=True, memory=1)     # every pair of consecutive moves from every product state
    for i, c in enumerate(cover):
        for j in ([i, i + 1] if not quick else [i]):          # the pair cover is large: two of the four probes per script in the thorough tier
            scripts.append({'hist': splitfam.with_probe(c['hist'], j), 'cover': True})
    ctx.cov['cover_scripts'] = len(cover)
    for w in wit:
        scripts.append({'hist': w['hist'], 'bad': 'model-cex'})
    traces, meta, seen = [], [], set()
    unspellable = 0
    for s in scripts:
        hist = s['hist']
        key = tuple(h['lab'] for h in hist)
        if key in seen or not hist:
            continue
        seen.add(key)
        is_cover = s.get('cover', False)
        for variant in ((1,) if is_cover and quick else (0, 1)):
            text = spell(hist, rng, canonical=(variant == 0))
            tr = splitfam.tok_trace(len(traces), text, hist, fallback=True)
            ctx.evals()
            if tr is None:
                unspellable += 1
                continue
            traces.append(tr)
            meta.append({'text': text, 'labels': list(key), 'model_bad': s.get('bad', ''), 'kind': 'script'})
            nfin = sum(1 for h in hist if h['fin'])
            ninner = sum(1 for h in hist if h['k'] == 'semi' and not h['fin'])
            if nfin >= 2 or ninner >= 1:
                ctx.nontrivial(key)
            # metamorphic: replace opaque region bodies; annotation carries over unchanged
            if variant == 1 and not tr.get('fallback') and not (is_cover and quick and rng.random() < 0.9):
                for vt, rk, span in region_variants(text, rng, 2 if quick else 3):
                    tv = splitfam.tok_trace(len(traces), vt, hist)
                    ctx.evals()
                    if tv is None:
                        # the replacement changed the significant token sequence: the region was not opaque
                        tv = splitfam.tok_trace(len(traces), vt)
                        tv['annotated'] = False
                        tv['opaque_broken'] = True
                    else:
                        tv['opaque_broken'] = False
                    tv['npieces_orig'] = tr['npieces']
                    traces.append(tv)
                    meta.append({'text': vt, 'labels': list(key), 'model_bad': '', 'kind': 'region:' + rk, 'orig': text})
                    ctx.nontrivial(('region', rk, vt))
    for tr in traces:
        tr.setdefault('opaque_broken', False)
        tr.setdefault('npieces_orig', tr['npieces'])
    for m in meta[:2] + meta[-3:]:
        ctx.sample({'script': m['text'], 'kind': m['kind']})
    rej = tracecheck.validate(ctx, 'TraceSplit', traces, label='TraceSplit_C05')
    drift = set(ctx.last_drift)
    for tid in sorted(drift)[:3]:
        ctx.drift('Splitter.tla predicts other pieces than the code for %r' % meta[tid]['text'][:80])
    ctx.cov['drift'] = len(drift)
    for tid, (clause, step) in sorted(rej.items(), key=lambda kv: len(meta[kv[0]]['text'])):
        m = meta[tid]
        tags = splitfam.triggers(traces[tid]['kinds']) + [m['kind']]
        if tid not in drift:
            tags.append('model-predicts-observed')
        case = {'text': m['text'], 'labels': m['labels'], 'clause': clause, 'step': step, 'tags': tags,
                'kinds': traces[tid]['kinds'], 'piece': traces[tid]['piece'], 'fin': traces[tid]['fin'],
                'orig': m.get('orig')}
        ctx.violation(case, 'split/parse of %r: %s at token %d' % (m['text'][:100], clause, step))
    if wit and not any(meta[t]['model_bad'] for t in rej):
        ctx.unrealised('%d lock-step witnesses did not fail on the code' % len(wit))
    ctx.cov['unspellable'] = unspellable
    ctx.cov['region_variants'] = sum(1 for m in meta if m['kind'].startswith('region'))
    ctx.assumptions += ['plain scripts are those of ScriptGen.tla with Allow=%s' % PLAIN,
                        'character-level opacity of the region rules themselves is decided by C14']
    return ctx.finish(
        rule='TLC lock-step model (any script length, frame depth<=%d); TLC-emitted scripts spelled twice; every opaque region of each script '
             're-spelled with bodies containing semicolons, other delimiters, keywords; non-trivial = script with >=2 statements or an inner semicolon, or a region variant' % depth)


def replay(rec):
    return splitfam.replay_tok('C05', rec)
