"""C06 - layout formatting never changes the significant tokens of the SQL."""
import random

from .. import fmtfam, formatrec, sqlprog
from ..core import MachineryError, cps, uncps

LEVEL = 'model_checking'
PID = 'C06'
PROPS = ['C06']


def option_sets(ctx, quick, rng):
    return fmtfam.option_states(ctx, fmtfam.LAYOUT_DOMAIN, PID + '_options')


def pick_options(opts, rng, n):
    return [rng.choice(opts) for _ in range(n)]


def run(ctx):
    quick = ctx.tier == 'quick'
    rng = random.Random(ctx.seed)
    # ---- M + S->C (i): every option state of the model vs the real stack builder
    opts = option_sets(ctx, quick, rng)
    for o in opts:
        msg = fmtfam.stage_list_agrees(o)
        ctx.evals()
        if msg:
            ctx.violation({'opt': o['opt'], 'tags': ['stage-list'], 'what': msg},
                          'filter stack differs from Options.tla: %s' % msg)
    ctx.cov['option_states'] = len(opts)
    # ---- programs x option states ------------------------------------------
    progs = sqlprog.programs(ctx, 250 if quick else 1500, PID + '_progs', seed=ctx.seed * 5 + 1)
    progs += sqlprog.programs(ctx, 100 if quick else 600, PID + '_progs_small', fuel=10, maxout=40, seed=ctx.seed * 5 + 2)
    traces, meta = [], []
    unspellable = 0
    for p in progs:
        for mode in (('cmt', 'ws', 'cmtx') if quick else ('cmt', 'ws', 'blank', 'cmt', 'cmtx')):
            sp = sqlprog.spell(p, rng, gaps=mode, tight=(rng.random() < 0.3), tail=True)
            if not sqlprog.lexes_as_intended(sp):
                unspellable += 1
                continue
            for o in pick_options(opts, rng, 2 if quick else 4):
                tr = formatrec.format_trace(len(traces), sp.text, o['opt'], second=False)
                traces.append(tr)
                meta.append({'text': sp.text, 'opt': {k: v for k, v in o['opt'].items() if v != 'unset'}})
                ctx.evals()
                if any(v == 'true' for v in o['opt'].values()) and len(tr['insig']) >= 6:
                    ctx.nontrivial((p.key, tuple(sorted(meta[-1]['opt'].items()))))
    for m in meta[3:6]:
        ctx.sample(m)
    ctx.cov['unspellable'] = unspellable
    nowrap = sum(1 for t in traces if not t['wrapped_ok'])
    if nowrap:
        ctx.drift('%d format runs could not be observed stage by stage (wrapped run differs); judged on input/output only' % nowrap)
    rej = fmtfam.validate(ctx, traces, PROPS, 'TraceFormat_' + PID)
    report(ctx, rej, traces, meta)
    return ctx.finish(
        rule='all %d layout option states of Options.tla checked against build_filter_stack; SqlGen programs (TLC -simulate) spelled with comments/'
             'hints/line breaks in the gaps x sampled option states; each format() run recorded stage by stage and validated by TLC (TraceFormat.tla, '
             'Props=%s); non-trivial = distinct (program, option set) with a layout option on and >=6 significant tokens' % (len(opts), PROPS))


def report(ctx, rej, traces, meta):
    for tid, (clause, step) in sorted(rej.items(), key=lambda kv: len(meta[kv[0]]['text'])):
        m = meta[tid]
        tags = ['fmt:' + clause]
        site = ''
        if clause == 'exception':
            site = fmtfam.exception_site(m['text'], formatrec.concrete_options(traces[tid]['opt']))
            tags.append('site:' + site)
        ctx.violation({'text': m['text'], 'input_cps': cps(m['text']), 'opt': traces[tid]['opt'], 'clause': clause,
                       'site': site, 'tags': tags, 'output': uncps(traces[tid]['out'])},
                      'format(%r, %s): %s %s' % (m['text'][:120], m['opt'], clause, site))


def replay(rec):
    from ..core import Ctx
    import shutil
    ctx = Ctx(PID, 'quick', LEVEL)
    case = rec['case']
    tr = formatrec.format_trace(0, uncps(case['input_cps']), case['opt'])
    rej = fmtfam.validate(ctx, [tr], PROPS, 'replay')
    shutil.rmtree(ctx.workdir, ignore_errors=True)
    if rej:
        print('VIOLATION property=%s replay=%s' % (PID, rec.get('replay', '?')))
        print('  still fails: %s' % (rej,))
        return 1
    print('replay passes on the current tree')
    return 0
