"""C07 - totality: any text and any valid option set gives a result or SQLParseError."""
import random
import traceback

from .. import tlc, tracecheck, fmtfam, formatrec, sqlprog, splitfam, treefam
from ..core import cps, MachineryError
from ..lexrec import sigma_strings, SIGMA_QUICK, random_unicode
from ..spell import spell, checked_pools
from .. import project

LEVEL = 'model_checking'

ACCESSORS = ['get_type', 'get_name', 'get_alias', 'get_real_name', 'get_parent_name', 'has_alias', 'get_identifiers',
             'get_parameters', 'get_window', 'get_cases', 'get_typecast', 'get_ordering', 'get_array_indices',
             'is_wildcard', 'is_multiline', 'left', 'right', 'token_first', 'get_sublists', 'flatten', '__str__', '__repr__']

VALID_DOMAIN = {n: ['unset'] for n in fmtfam.ORDER}
for n in fmtfam.BOOLS:
    VALID_DOMAIN[n] = ['unset', 'true', 'false']
VALID_DOMAIN.update({'keyword_case': ['unset', 'upper', 'lower', 'capitalize'], 'identifier_case': ['unset', 'upper', 'capitalize'],
                     'output_format': ['unset', 'sql', 'python', 'php'], 'truncate_strings': ['unset', '3', '20'],
                     'indent_width': ['unset', '1', '4'], 'wrap_after': ['unset', '0', '1', '40']})
INVALID_DOMAIN = {k: list(v) + ['BAD'] for k, v in VALID_DOMAIN.items()}
INVALID_DOMAIN['truncate_strings'] += ['1']
INVALID_DOMAIN['indent_width'] += ['0']
INVALID_DOMAIN['wrap_after'] += ['-1']


def site_of(e):
    tb = traceback.extract_tb(e.__traceback__)
    for fr in reversed(tb):
        if '/sqlparse/' in fr.filename:
            return '%s:%s:%s' % (type(e).__name__, fr.filename.split('/sqlparse/')[-1], fr.name)
    return type(e).__name__


def accessor_sweep(stmts):
    """call every read-only accessor on every node; returns list of (site, accessor, class)"""
    from sqlparse.exceptions import SQLParseError
    bad = []
    for s in stmts:
        nodes = [g for g, _, _ in project.groups(s)]
        for n in nodes:
            for a in ACCESSORS:
                if not hasattr(n, a):
                    continue
                try:
                    v = getattr(n, a)
                    if callable(v):
                        v = v()
                    if a in ('get_identifiers', 'get_array_indices', 'get_sublists', 'flatten', 'get_parameters') and v is not None:
                        list(v)
                except SQLParseError:
                    pass
                except RecursionError:
                    pass
                except Exception as e:  # noqa
                    bad.append((site_of(e), a, type(n).__name__))
    return bad


def mutate(prog, rng):
    """nearly valid programs: drop / duplicate / swap / insert one token label"""
    toks = list(prog.tokens)
    if not toks:
        return toks
    op = rng.randrange(4)
    i = rng.randrange(len(toks))
    if op == 0:
        del toks[i]
    elif op == 1:
        toks.insert(i, toks[i])
    elif op == 2 and len(toks) > 1:
        j = rng.randrange(len(toks))
        toks[i], toks[j] = toks[j], toks[i]
    else:
        toks.insert(i, rng.choice(['lp', 'rp', 'comma', 'case', 'end', 'select', 'where', 'as', 'dot', 'op', 'lbr', 'rbr', 'over', 'semi', 'dcolon']))
    return toks


class FlatProg:
    def __init__(self, toks):
        self.tokens = toks
        self.spans = []
        self.key = tuple(toks)


def call_trace(tid, api, text, opt, optvalid=True, sweep=True, variant=0):
    import sqlparse
    from sqlparse import lexer
    from sqlparse.exceptions import SQLParseError
    tr = {'id': tid, 'api': api, 'optvalid': optvalid, 'outcome': 'ok', 'lexed': False, 'accexc': 0, 'fault': '',
          'faulthit': False, 'later': '', 'exit': 0, 'roundtrip': True}
    info = {'site': '', 'acc': []}
    orig = lexer.tokenize
    seen = {'n': 0}

    def counting(sql, encoding=None):
        seen['n'] += 1
        return orig(sql, encoding)
    lexer.tokenize = counting
    try:
        try:
            if api == 'parse':
                st = sqlparse.parse(text)
                if sweep:
                    info['acc'] = accessor_sweep(st)
            elif api == 'split':
                sqlparse.split(text)
                sqlparse.split(text, strip_semicolon=True)
            elif api == 'parsestream':
                list(sqlparse.parsestream(text))
            else:
                sqlparse.format(text, **formatrec.concrete_options(opt, variant))
        except SQLParseError:
            tr['outcome'] = 'SQLParseError'
        except Exception as e:  # noqa
            tr['outcome'] = type(e).__name__
            info['site'] = site_of(e)
    finally:
        lexer.tokenize = orig
    tr['lexed'] = seen['n'] > 0
    tr['accexc'] = len(info['acc'])
    return tr, info


def run(ctx):
    quick = ctx.tier == 'quick'
    rng = random.Random(ctx.seed)
    # ---- M: pipeline outcome alphabet; invalid options rejected before work ----
    cfg = ('SPECIFICATION Spec\nCONSTANTS\n NStmts = 2\n Emit = FALSE\nINVARIANT NoRecursionErrorEscapes\nINVARIANT RejectBeforeWork\n'
           'INVARIANT RecAlwaysTranslated\nINVARIANT OutcomeKinds\n')
    r = tlc.run(ctx.workdir, 'Pipeline', cfg, workers=4, label='Pipeline')
    ctx.add_tlc(r, 'Pipeline.tla all entry points, 2 statements, fault at every stage')
    for a in ('ValidateFail', 'Translate', 'Yield'):
        if r.coverage.get(a, 0) == 0:
            raise MachineryError('Pipeline action %s never taken' % a)
    # ---- options: invalid representatives (TLC) -----------------------------------
    bad_opts = fmtfam.option_states(ctx, INVALID_DOMAIN, 'C07_options_invalid', simulate=300 if quick else 5000, seed=ctx.seed + 3)
    good_opts = fmtfam.option_states(ctx, VALID_DOMAIN, 'C07_options_valid', simulate=300 if quick else 5000, seed=ctx.seed + 4)
    traces, meta, infos = [], [], []

    def add(api, text, opt, optvalid=True, sweep=True, variant=0):
        tr, info = call_trace(len(traces), api, text, opt, optvalid, sweep, variant)
        traces.append(tr)
        meta.append({'api': api, 'text': text, 'opt': {k: v for k, v in (opt or {}).items() if v != 'unset'}, 'variant': variant,
                     'concrete': repr(formatrec.concrete_options(opt, variant)) if opt else ''})
        infos.append(info)
        ctx.evals()
    for o in bad_opts:
        msg = fmtfam.stage_list_agrees(o)
        if msg:
            ctx.drift(msg)
        if o['bad']:
            add('format', 'select a from b where c = 1', o['opt'], optvalid=False)
            for variant in range(1, 11):      # the invalid value as a list, dict, bytearray, float, infinity, ...
                add('format', 'select a from b where c = 1', o['opt'], optvalid=False, variant=variant)
            ctx.nontrivial(('badopt', tuple(sorted(o['opt'].items()))))
    good = [o for o in good_opts if not o['bad']]
    # ---- inputs ---------------------------------------------------------------------
    texts = []
    checked_pools()
    progs = sqlprog.programs(ctx, 200 if quick else 2500, 'C07_progs', seed=ctx.seed * 7 + 5)
    for p in progs:
        for _ in range(2):
            fp = FlatProg(mutate(p, rng))
            texts.append(sqlprog.spell(fp, rng, gaps=rng.choice(['blank', 'ws', 'cmt']), tight=rng.random() < 0.4).text)
    junk = splitfam.emit_scripts(ctx, ['junk'], 2, 'C07_junk', simulate=400 if quick else 5000, maxlen=14, softlen=12, minlen=1, seed=ctx.seed + 9)
    texts += [spell(s['hist'], rng) for s in junk]
    texts += [t for t, _, _ in treefam.tag_inputs(ctx, True, rng)][::7 if quick else 2]
    texts += list(sigma_strings(SIGMA_QUICK, 2))
    texts += [random_unicode(rng, 40) for _ in range(300 if quick else 4000)]
    for t in texts:
        add('parse', t, None)
        add('split', t, None, sweep=False)
        for o in ([rng.choice(good)] if quick else [rng.choice(good), rng.choice(good)]):
            add('format', t, o['opt'])
        ctx.nontrivial(t)
    # wide inputs: one list replicated beyond 10000 tokens (select list, VALUES rows), many statements, many distinct words
    from .. import widen
    wide = []
    for p in progs:
        if len(wide) >= (2 if quick else 5):
            break
        w = widen.widen(p, 10500 if len(wide) % 2 == 0 else 16000)
        if w is not None:
            wide.append(sqlprog.spell(w, rng, gaps='blank').text)
    wide.append('insert into t (a, b) values ' + ', '.join("(%d, 'x%d')" % (i, i) for i in range(1300 if quick else 2600)) + ';')
    wide.append(' '.join('select c%d from t%d;' % (i, i) for i in range(3000)))
    for t in wide:
        add('parse', t, None, sweep=False)
        add('split', t, None, sweep=False)
        add('format', t, rng.choice(good)['opt'])
        ctx.nontrivial(('wide', len(t)))
    ctx.cov['wide_inputs'] = len(wide)
    for m in meta[-3:]:
        ctx.sample(m)
    rej = tracecheck.validate(ctx, 'TracePipeline', traces, label='TracePipeline_C07', min_chunk=100)
    for tid, (clause, step) in sorted(rej.items(), key=lambda kv: len(meta[kv[0]]['text'])):
        m, info = meta[tid], infos[tid]
        tags = ['c07:' + clause]
        if info['site']:
            tags.append('site:' + info['site'])
        for site, acc, cls in info['acc'][:5]:
            tags.append('acc:%s:%s:%s' % (cls, acc, site))
        ctx.violation({'api': m['api'], 'text': m['text'], 'input_cps': cps(m['text']), 'opt': traces[tid] and m['opt'], 'variant': m.get('variant', 0), 'concrete': m.get('concrete', ''), 'clause': clause,
                       'site': info['site'], 'accessors': info['acc'][:5], 'tags': tags},
                      '%s(%r, %s): %s %s %s' % (m['api'], m['text'][:80], m.get('concrete') if m.get('variant') else m['opt'], clause, info['site'], info['acc'][:2]))
    ctx.assumptions += ['documented options only (right_margin is undocumented and its filter is a stub raising NotImplementedError)']
    return ctx.finish(
        rule='inputs: mutated SqlGen programs (drop/dup/swap/insert a token), ScriptGen junk sequences, TLC delimiter sequences, short class strings, random Unicode; '
             'parse (+ every read-only accessor on every node), split (both modes), format x TLC-simulated valid option states; invalid option states (Options.tla '
             'with BAD / out-of-range representatives) must be rejected before lexing; TLC (TracePipeline.tla) decides each call; non-trivial = distinct input or option state')


def replay(rec):
    c = rec['case']
    tr, info = call_trace(0, c['api'], ''.join(chr(x) for x in c['input_cps']), c.get('opt') and {**{n: 'unset' for n in fmtfam.ORDER + ['truncate_char']}, **c['opt']})
    print(tr, info)
    if tr['outcome'] not in ('ok', 'SQLParseError') or tr['accexc']:
        print('VIOLATION property=C07 replay=%s' % rec.get('replay', '?'))
        return 1
    return 0
