"""C08 - targeted filters change exactly their target tokens and nothing else."""
import random

from .. import fmtfam, formatrec, sqlprog
from . import c06

LEVEL = 'model_checking'
PID = 'C08'
PROPS = ['C08']

DOMAIN = {n: ['unset'] for n in fmtfam.ORDER}
DOMAIN['strip_comments'] = ['unset', 'true']
DOMAIN['keyword_case'] = ['unset', 'upper', 'lower', 'capitalize']
DOMAIN['identifier_case'] = ['unset', 'upper', 'lower', 'capitalize']
DOMAIN['truncate_strings'] = ['unset', '3', '5', '20']
DOMAIN['reindent'] = ['unset', 'true']
DOMAIN['strip_whitespace'] = ['unset', 'true']
DOMAIN['use_space_around_operators'] = ['unset', 'true']
DOMAIN['reindent_aligned'] = ['unset', 'true']


def run(ctx):
    quick = ctx.tier == 'quick'
    rng = random.Random(ctx.seed)
    opts = fmtfam.option_states(ctx, DOMAIN, PID + '_options')
    opts = [o for o in opts if any(o['opt'][k] != 'unset' for k in ('strip_comments', 'keyword_case', 'identifier_case', 'truncate_strings'))]
    for o in opts:
        msg = fmtfam.stage_list_agrees(o)
        ctx.evals()
        if msg:
            ctx.violation({'opt': o['opt'], 'tags': ['stage-list'], 'what': msg}, 'filter stack differs from Options.tla: %s' % msg)
    ctx.cov['option_states'] = len(opts)
    progs = sqlprog.programs(ctx, 250 if quick else 1500, PID + '_progs', seed=ctx.seed * 7 + 1)
    progs += sqlprog.programs(ctx, 100 if quick else 600, PID + '_progs_small', fuel=10, maxout=40, seed=ctx.seed * 7 + 2)
    traces, meta = [], []
    unspellable = 0
    for p in progs:
        for mode in (('cmt', 'blank') if quick else ('cmt', 'ws', 'blank', 'cmt')):
            sp = sqlprog.spell(p, rng, gaps=mode, tight=(rng.random() < 0.3), tail=True)
            if not sqlprog.lexes_as_intended(sp):
                unspellable += 1
                continue
            for o in c06.pick_options(opts, rng, 2 if quick else 4):
                opt = dict(o['opt'])
                if opt['truncate_strings'] != 'unset':
                    opt['truncate_char'] = rng.choice(['unset', 'x', 'empty'])
                tr = formatrec.format_trace(len(traces), sp.text, opt, second=True)
                traces.append(tr)
                meta.append({'text': sp.text, 'opt': {k: v for k, v in opt.items() if v != 'unset'}})
                ctx.evals()
                kinds = {t['k'] for t in tr['insig']}
                if (('cmt' in kinds and opt['strip_comments'] == 'true') or ('str' in kinds and opt['truncate_strings'] != 'unset')
                        or opt['keyword_case'] != 'unset' or opt['identifier_case'] != 'unset'):
                    ctx.nontrivial((p.key, mode, tuple(sorted(meta[-1]['opt'].items()))))
    # comment adjacency cover: for every PAIR of neighbouring token labels the grammar produces, one program with a
    # block comment written tight between exactly those two tokens (all other gaps single blanks), strip_comments alone
    # and together with the whitespace stripper - "no two tokens are fused" for every kind of neighbourhood
    from sqlparse import lexer as _lexer, tokens as _T
    seen_pairs = set()
    base = {k: 'unset' for k in fmtfam.ORDER}
    for p in progs:
        sp = None
        for i in range(len(p.tokens) - 1):
            pair = (p.tokens[i], p.tokens[i + 1])
            if pair in seen_pairs:
                continue
            if sp is None:
                sp = sqlprog.spell(p, rng, gaps='blank')
                if not sqlprog.lexes_as_intended(sp):
                    break
            seen_pairs.add(pair)
            a, b = sp.tokspans[i][1], sp.tokspans[i + 1][0]
            text = sp.text[:a] + '/* c */' + sp.text[b:]
            toks = [v for tt, v in _lexer.tokenize(text) if tt not in _T.Whitespace and tt not in _T.Comment]
            if toks != [v for tt, v in _lexer.tokenize(sp.text) if tt not in _T.Whitespace and tt not in _T.Comment]:
                continue          # the comment itself changed the tokens around it (e.g. `a./* c */b`): not this property
            for extra in ({}, {'strip_whitespace': 'true'}):
                opt = dict(base, strip_comments='true', **extra)
                tr = formatrec.format_trace(len(traces), text, opt, second=True)
                traces.append(tr)
                meta.append({'text': text, 'opt': {k: v for k, v in opt.items() if v != 'unset'}})
                ctx.evals()
                ctx.nontrivial(('adjacent-comment', pair, tuple(sorted(extra))))
    ctx.cov['comment_adjacency_pairs'] = len(seen_pairs)
    for m in meta[3:6]:
        ctx.sample(m)
    ctx.cov['unspellable'] = unspellable
    rej = fmtfam.validate(ctx, traces, PROPS, 'TraceFormat_' + PID)
    c06.report(ctx, rej, traces, meta)
    return ctx.finish(
        rule='%d targeted option states (strip_comments, keyword_case, identifier_case, truncate_strings x truncate_char, alone and with layout options) '
             'x SqlGen programs with comments and hints in the gaps; TLC computes the expected token sequence (TraceFormat.tla PreExpected/DropComments) and '
             'compares it with the re-lexed output, plus idempotence; non-trivial = run in which the filter had a target' % len(opts))


def replay(rec):
    c06.PID, c06.PROPS = PID, PROPS
    return c06.replay(rec)
