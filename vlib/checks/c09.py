"""C09 - bracketed and block groups are exactly the properly matched pairs."""
import random

from .. import tlc, treerec, treefam
from ..core import MachineryError, cps

LEVEL = 'model_checking'
GM_CFG = "SPECIFICATION Spec\nCONSTANTS\n MaxLen = %d\n OffDelta = %d\nINVARIANT NoIndexError\nINVARIANT Correct\nINVARIANT KidsTile\n"


def run(ctx):
    quick = ctx.tier == 'quick'
    rng = random.Random(ctx.seed)
    # ---- M: the offset arithmetic of _group_matching, all sequences ----
    r = tlc.run(ctx.workdir, 'GroupMatching', GM_CFG % (7 if quick else 9, 0), workers=16, label='GroupMatching', timeout=900)
    ctx.add_tlc(r, 'GroupMatching exhaustive len<=%d over {o,c,x,w}' % (7 if quick else 9))
    for a in ('Iter', 'Done'):
        if r.coverage.get(a, 0) == 0:
            raise MachineryError('GroupMatching action %s never taken' % a)
    r2 = tlc.run(ctx.workdir, 'GroupMatching', GM_CFG % (5, 1), workers=4, label='GroupMatching_mutant', allow_violation=True)
    if not r2.violated:
        raise MachineryError('vacuity guard: off-by-one tidx_offset not detected')
    ctx.notes.append('vacuity guard ok: OffDelta=1 violates %s' % r2.violated)
    # design-level: code-shaped matcher vs textbook matcher (collects the shared-END class)
    r3 = tlc.run(ctx.workdir, 'BracketGen', treefam.bracket_cfg(['case', 'begin', 'end', 'lp', 'rp', 'x'], 5 if quick else 6, False),
                 workers=8, label='BG_design', coverage=False)
    ctx.add_tlc(r3, 'BracketGen MatchImpl vs MatchRef, shared END')
    ctx.cov['design_level_disagreements'] = len(r3.printed)
    # ---- S->C / C->S -----------------------------------------------------
    inputs = treefam.tag_inputs(ctx, quick, rng)
    traces, meta = [], []
    unspellable = 0
    for text, tags, agree in inputs:
        tr = treerec.parse_trace(len(traces), text, strs=False)
        ctx.evals()
        real = treerec.leaf_tags(tr)
        want = [t for t in tags if t != 'ws']
        if real != want:
            unspellable += 1
            continue
        for st in tr['stmts']:
            st['strs'] = [[] for _ in st['nodes']]
        traces.append(tr)
        meta.append({'text': text, 'tags': tags, 'agree': agree})
        if any(t in tags for t in ('rp', 'rb', 'end', 'endif', 'endloop')):
            ctx.nontrivial(tuple(tags))
    for m in meta[100:103]:
        ctx.sample(m)
    rej = treefam.validate(ctx, traces, ['C09'], 'TraceParse_C09')
    drift = set(ctx.last_drift)
    ctx.cov['drift'] = len(drift)
    for tid in sorted(drift)[:3]:
        ctx.drift('MatchImpl (model of _group_matching) does not predict the tree of %r' % meta[tid]['text'])
    for tid, (clause, step) in sorted(rej.items(), key=lambda kv: len(meta[kv[0]]['text'])):
        m = meta[tid]
        tags = []
        if tid not in drift:
            tags.append('model-predicts-observed')
        if not m['agree']:
            tags.append('design-level-disagreement')
        if 'case' in m['tags'] and 'begin' in m['tags'] and 'end' in m['tags']:
            tags.append('T_case_begin_shared_end')
        ctx.violation({'text': m['text'], 'input_cps': cps(m['text']), 'abstract': m['tags'], 'clause': clause, 'tags': tags},
                      'parse(%r): %s' % (m['text'], clause))
    from .. import widematch
    widematch.run(ctx, quick, rng)
    ctx.cov['unspellable'] = unspellable
    return ctx.finish(
        rule='TLC-enumerated delimiter sequences (5 interaction alphabets exhaustively, all 13 tags by simulation) spelled and parsed; '
             'TLC compares the six classes of group nodes of every real tree with MatchRef; non-trivial = distinct sequence containing a closer')


def replay(rec):
    return treefam.replay_parse('C09', ['C09'], rec)
