"""C10 - requested layout normal forms are actually achieved."""
import random

from .. import fmtfam, formatrec, sqlprog
from . import c06

LEVEL = 'model_checking'
PID = 'C10'
PROPS = ['C10']

DOMAIN = dict(fmtfam.LAYOUT_DOMAIN)
DOMAIN['reindent_aligned'] = ['unset']


def run(ctx):
    quick = ctx.tier == 'quick'
    rng = random.Random(ctx.seed)
    # design level + binding: StripWhitespaceFilter on one token list, all lists up to the bound (StripWs.tla)
    from .. import stripwsrun
    stripwsrun.run(ctx, quick)
    opts = fmtfam.option_states(ctx, DOMAIN, PID + '_options')
    opts = [o for o in opts if any(o['opt'][k] == 'true' for k in ('strip_whitespace', 'use_space_around_operators', 'reindent', 'indent_columns'))]
    ctx.cov['option_states'] = len(opts)
    simple = [o for o in opts if o['opt']['reindent'] == 'unset' and o['opt']['indent_columns'] == 'unset']
    progs = sqlprog.programs(ctx, 400 if quick else 1500, PID + '_progs', seed=ctx.seed * 9 + 1)
    progs += sqlprog.programs(ctx, 200 if quick else 600, PID + '_progs_small', fuel=10, maxout=40, seed=ctx.seed * 9 + 2)
    traces, meta = [], []
    unspellable = 0
    for p in progs:
        for mode in (('ws', 'cmt') if quick else ('ws', 'cmt', 'blank', 'ws')):
            sp = sqlprog.spell(p, rng, gaps=mode, tight=(rng.random() < 0.3), canonical_kw=True, tail=True)
            if not sqlprog.lexes_as_intended(sp):
                unspellable += 1
                continue
            for o in [rng.choice(simple), rng.choice(opts)] + ([] if quick else [rng.choice(opts), rng.choice(simple)]):
                tr = formatrec.format_trace(len(traces), sp.text, o['opt'], second=True)
                traces.append(tr)
                meta.append({'text': sp.text, 'opt': {k: v for k, v in o['opt'].items() if v != 'unset'}})
                ctx.evals()
                ctx.nontrivial((p.key, mode, tuple(sorted(meta[-1]['opt'].items()))))
    for m in meta[3:6]:
        ctx.sample(m)
    ctx.cov['unspellable'] = unspellable
    rej = fmtfam.validate(ctx, traces, PROPS, 'TraceFormat_' + PID)
    c06.report(ctx, rej, traces, meta)
    return ctx.finish(
        rule='%d option states with strip_whitespace / use_space_around_operators / reindent (+ every reindent sub-option) x SqlGen programs '
             '(canonical single-blank multi-word keywords; respellings belong to C11); TLC evaluates the normal-form predicates of TraceFormat.tla on the '
             're-lexed output and the fixed-point clause; non-trivial = distinct (program, gaps, option set)' % len(opts))


def replay(rec):
    c06.PID, c06.PROPS = PID, PROPS
    return c06.replay(rec)
