"""C11 - parsing is insensitive to inter-token whitespace and keyword letter case."""
import random

from .. import tlc, tracecheck, sqlprog, splitfam, shaperec
from ..core import cps, MachineryError
from ..spell import spell, checked_pools
from .c17 import ALL as PROC_ALL

LEVEL = 'model_checking'


def run(ctx):
    quick = ctx.tier == 'quick'
    rng = random.Random(ctx.seed)
    # ---- M: spelling-sensitive comparison sites of the design ------------
    res = tlc.run(ctx.workdir, 'Spelling', 'SPECIFICATION Spec\nINVARIANT PrintSensitive\n', workers=1, label='Spelling', coverage=False)
    ctx.add_tlc(res, 'Spelling.tla: comparison sites x spellings')
    sensitive = res.printed
    ctx.cov['spelling_sensitive_sites'] = [s['site'] for s in sensitive]
    # ---- programs: canonical spelling vs respellings ----------------------
    texts = []
    progs = sqlprog.programs(ctx, 300 if quick else 3000, 'C11_progs', seed=ctx.seed * 3 + 1)
    for p in progs:
        sp = sqlprog.spell(p, rng, gaps='blank')      # any spelling of every pool serves as the baseline
        if sqlprog.lexes_as_intended(sp):
            texts.append(('plain', sp.text))
            # CREATE and CREATE OR REPLACE are one keyword rule: every CREATE statement also in its longer form
            import re as _re
            if _re.search(r'(?i)\bcreate table\b', sp.text):
                texts.append(('plain', _re.sub(r'(?i)\bcreate table\b', 'create or replace table', sp.text)))
    checked_pools()
    scripts = splitfam.emit_scripts(ctx, PROC_ALL + ['caseexpr', 'txbegin'], 5, 'C11_proc', simulate=500 if quick else 5000,
                                    maxlen=36, minlen=6, seed=ctx.seed * 5 + 2)
    cover = splitfam.cover_scripts(ctx, ['proc', 'if', 'whiledo', 'nestedbegin', 'loop', 'caseexpr_body'], 5, 'C11_cover')
    seen = set()
    for s in scripts + [{'hist': splitfam.with_probe(c['hist'], i)} for i, c in enumerate(cover)]:
        key = tuple(h['lab'] for h in s['hist'])
        if key in seen or not s['hist']:
            continue
        seen.add(key)
        # no comments in C11 inputs: whitespace gaps only
        hist = [h for h in s['hist'] if h['k'] not in ('cmt1', 'cmtm')]
        texts.append(('proc', spell(hist, rng, canonical=True)))
    traces, meta = [], []
    for kind, t in texts:
        a = shaperec.shape(t)
        for v in range(2 if quick else 4):
            t2 = shaperec.respell(t, rng, casing=(v != 1), gaps=(v != 2))
            if t2 == t:
                continue
            b = shaperec.shape(t2)
            traces.append({'id': len(traces), 'a': a, 'b': b})
            meta.append({'kind': kind, 'a': t, 'b': t2})
            ctx.evals()
            ctx.nontrivial(t2)
    for m in meta[1:4]:
        ctx.sample(m)
    rej = tracecheck.validate(ctx, 'TraceShape', traces, label='TraceShape', min_chunk=30)
    for tid, (clause, step) in sorted(rej.items(), key=lambda kv: len(meta[kv[0]]['a'])):
        m = meta[tid]
        from sqlparse import lexer, tokens as T
        kws = sorted({' '.join(v.upper().split()) for tt, v in lexer.tokenize(m['b']) if tt in T.Keyword and len(v.split()) > 1})
        import re
        tags = ['multiword:' + k for k in kws]
        if re.search(r'(?m)^\s*go\b', m['b']) or re.search(r'\bgo\b', m['b']):
            tags.append('lowercase-go')
        ctx.violation({'text': m['b'], 'input_cps': cps(m['b']), 'canonical': m['a'], 'clause': clause, 'tags': tags, 'kind': m['kind']},
                      'respelling changes the parse (%s): %r vs canonical %r' % (clause, m['b'][:120], m['a'][:120]))
    return ctx.finish(
        rule='TLC-generated programs (SqlGen) and procedural scripts (ScriptGen simulate + state cover) in canonical spelling vs respellings chosen per '
             'whitespace position (blank, 2 blanks, tab, LF, CRLF, mixed; also inside multi-word keywords) and per keyword (upper/lower/capitalised/mixed); '
             'TLC compares statement counts, boundaries, get_type and the whole tree shape entry by entry; Spelling.tla lists the spelling-sensitive '
             'comparison sites of the design; non-trivial = distinct respelled text')


def replay(rec):
    from ..core import Ctx
    import shutil
    ctx = Ctx('C11', 'quick', LEVEL)
    c = rec['case']
    tr = {'id': 0, 'a': shaperec.shape(c['canonical']), 'b': shaperec.shape(c['text'])}
    rej = tracecheck.validate(ctx, 'TraceShape', [tr], chunks=1)
    shutil.rmtree(ctx.workdir, ignore_errors=True)
    if rej:
        print('VIOLATION property=C11 replay=%s' % rec.get('replay', '?'))
        print('  still fails: %s' % (rej,))
        return 1
    print('replay passes on the current tree')
    return 0
