"""C12 - identifier accessors return the written name, qualifier and alias."""
import random

from .. import sqlprog, accrec, tracecheck, accrun
from ..core import cps, uncps

LEVEL = 'model_checking'
PID = 'C12'
PROPS = ['C12']
START = [('RefProbe', 11, 60), ('Script', 13, 90)]


def cfg(props):
    return tracecheck.CFG + 'CONSTANTS\n  Props = {%s}\n' % ', '.join('"%s"' % p for p in props)


def count_nontrivial(ctx, tr, sp):
    for x in tr['ids']:
        ctx.nontrivial((uncps(x['exp']['n']), uncps(x['exp']['q']), uncps(x['exp']['a']), x['ctx'], x['exp']['has_a']))


def extra_traces(ctx, rng, quick, start_id):
    return [], []


def run(ctx, modes=('ws', 'blank', 'ws')):
    quick = ctx.tier == 'quick'
    rng = random.Random(ctx.seed)
    me = __import__('vlib.checks.' + PID.lower(), fromlist=['x'])
    progs = []
    for i, (start, fuel, maxout) in enumerate(me.START):
        progs += sqlprog.programs(ctx, 800 if quick else 5000, '%s_progs_%s' % (PID, start), start=start, fuel=fuel,
                                  maxout=maxout, seed=ctx.seed * 3 + i + 1)
    traces, meta = [], []
    unspellable = 0
    for p in progs:
        for mode in (modes if not quick else modes[:2]):
            sp = sqlprog.spell(p, rng, gaps=mode, tight=(rng.random() < 0.3))
            if not sqlprog.lexes_as_intended(sp):
                unspellable += 1
                continue
            tr = accrec.record(len(traces), sp)
            traces.append(tr)
            meta.append(sp.text)
            ctx.evals()
            me.count_nontrivial(ctx, tr, sp)
    # wide programs: one list replicated beyond 10000 tokens (a few: parsing them is quadratic in the width)
    from .. import widen
    nwide = 0
    for p in progs:
        if nwide >= (2 if quick else 6):
            break
        w = widen.widen(p, 11000 if nwide % 2 == 0 else 21000, min_item=4)      # a qualified / aliased reference, a call, ...
        if w is None:
            continue
        sp = sqlprog.spell(w, rng, gaps='blank')
        if not sqlprog.lexes_as_intended(sp):
            continue
        tr = accrec.record(len(traces), sp)
        traces.append(tr)
        meta.append(sp.text)
        ctx.evals()
        ctx.nontrivial(('wide', nwide, len(sp.words)))
        nwide += 1
    ctx.cov['wide_programs'] = nwide
    if PID == 'C12':
        # design-level run of the accessor model + its binding to the real classes
        accrun.run(ctx, quick)
    xt, xm = me.extra_traces(ctx, rng, quick, len(traces))
    traces += xt
    meta += xm
    for t in meta[2:5]:
        ctx.sample(t)
    ctx.cov['unspellable'] = unspellable
    rej = tracecheck.validate(ctx, 'TraceAccessors', traces, cfg=cfg(me.PROPS), label='TraceAccessors_' + PID)
    keys = ['stmts', 'ids', 'wheres', 'lists', 'fns', 'cases', 'cmps', 'tls']

    def dec(o):
        if isinstance(o, list) and o and all(isinstance(i, int) for i in o):
            return uncps(o)
        if isinstance(o, list):
            return [dec(i) for i in o]
        if isinstance(o, dict):
            return {k: dec(v) for k, v in o.items()}
        return o
    for tid, (clause, step) in sorted(rej.items(), key=lambda kv: len(meta[kv[0]])):
        ph, l = divmod(step, 1000)
        item = None
        if 1 <= ph <= len(keys) and 1 <= l <= len(traces[tid][keys[ph - 1]]):
            item = dec(traces[tid][keys[ph - 1]][l - 1])
        ctx.violation({'text': meta[tid], 'input_cps': cps(meta[tid]), 'clause': clause, 'tags': [clause], 'item': item},
                      'parse(%r): %s: %s' % (meta[tid][:100], clause, str(item)[:300]))
    return ctx.finish(rule=me.RULE)


RULE = ('SqlGen.tla derivations (start symbols RefProbe and Script) spelled with blanks/tabs/line breaks in the gaps; for every annotated '
        'object reference in a select list, FROM list, JOIN, UPDATE/INSERT/DELETE target or subquery TLC requires an Identifier whose five '
        'accessors equal the written name/qualifier/alias (quotes removed by Unquote); non-trivial = distinct (name, qualifier, alias, context)')


def replay(rec):
    print('replay: re-run the check (cases are derived from TLC-generated programs); input was: %r' % rec['case'].get('text'))
    import sqlparse
    sqlparse.parse(rec['case']['text'])[0]._pprint_tree()
    return 0
