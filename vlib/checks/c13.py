"""C13 - clause nodes cover exactly the clause as written."""
from . import c12
from ..core import uncps

LEVEL = 'model_checking'
PID = 'C13'
PROPS = ['C13']
START = [('Script', 13, 90), ('Script', 10, 50)]


def count_nontrivial(ctx, tr, sp):
    for k in ('wheres', 'lists', 'fns', 'cases', 'cmps', 'tls'):
        for x in tr[k]:
            ctx.nontrivial((k, sp.text[x['lo']:x['hi']]))


extra_traces = c12.extra_traces
RULE = ('SqlGen.tla derivations spelled with blanks/tabs/line breaks; for every annotated WHERE clause, item list (>=2 items), call, CASE, comparison '
        'and typed literal TLC requires a node of the right class with the written extent and get_identifiers/get_parameters/get_cases/left/right '
        'equal to the written parts (modulo surrounding whitespace); non-trivial = distinct annotated construct text')


def run(ctx):
    c12.PID = PID
    try:
        return c12.run(ctx)
    finally:
        c12.PID = 'C12'


replay = c12.replay
