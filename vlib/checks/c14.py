"""C14 - literal, quoted-name and comment bodies are opaque; keywords classify by table."""
import random
from concurrent.futures import ThreadPoolExecutor

from .. import tlc, tracecheck, extract, lexclasses
from ..core import MachineryError, cps, uncps
from ..lexrec import LexRecorder

LEVEL = 'model_checking'
SIG = ["sq", "dq", "bt", "bs", "dash", "slash", "star", "hash", "dollar", "plus", "colon", "qm", "semi", "lp", "rp", "dot", "eq", "lt",
       "lf", "cr", "sp", "tab", "a", "w", "d", "us", "nul", "amp"]
MC = '---- MODULE MC_LexProp ----\nEXTENDS LexProp\nEmpty == <<>>\n%s\n====\n'


def cfg(mode, alpha, n, emit, prefix='Empty'):
    return ('SPECIFICATION Spec\nCONSTANTS\n Mode = "%s"\n Alphabet = {%s}\n MaxLen = %d\n Prefix <- %s\n Emit = %s\nINVARIANT AllProps\n'
            % (mode, ','.join('"%s"' % a for a in alpha), n, prefix, 'TRUE' if emit else 'FALSE'))


def run_lexprop(ctx, mode, alpha, n, emit, label, workers=16, simulate=None, seed=None, prefixes=None):
    """returns printed records; prefixes: list of symbol tuples to partition an emission run over parallel TLC processes"""
    if prefixes is None:
        res = tlc.run(ctx.workdir, 'MC_LexProp', cfg(mode, alpha, n, emit), extra_modules={'MC_LexProp': MC % ''}, workers=workers,
                      label=label, coverage=False, simulate=('num=%d' % simulate) if simulate else None,
                      depth=(n + 3) if simulate else None, seed=seed, timeout=1500)
        ctx.add_tlc(res, '%s LexProp %s len<=%d%s' % (label, mode, n, ' simulate %d' % simulate if simulate else ''))
        return res.printed
    out = []

    def one(i, pf):
        defs = 'Pf == <<%s>>' % ', '.join('"%s"' % s for s in pf)
        return tlc.run(ctx.workdir, 'MC_LexProp', cfg(mode, alpha, n, emit, 'Pf'), extra_modules={'MC_LexProp': MC % defs}, workers=1,
                       label='%s_%d' % (label, i), coverage=False, timeout=1500)
    with ThreadPoolExecutor(max_workers=16) as ex:
        futs = [ex.submit(one, i, pf) for i, pf in enumerate(prefixes)]
        gen = dist = 0
        for f in futs:
            r = f.result()
            out += r.printed
            gen += r.generated
            dist += r.distinct
    rr = tlc.TlcResult()
    rr.generated, rr.distinct, rr.mode = gen, dist, 'exhaustive'
    ctx.add_tlc(rr, '%s LexProp %s len<=%d partitioned over %d prefixes' % (label, mode, n, len(prefixes)))
    return out


def real_tokens(text):
    from sqlparse import lexer
    out = []
    pos = 0
    for tt, v in lexer.tokenize(text):
        pos += len(v)
        out.append((lexclasses.coarse(tt), pos))
    return out


def keyword_constants(order=None):
    """order: indices into the registered dictionaries (a reconfigured lexer registers them in this order)"""
    import re
    from sqlparse import keywords as K
    dicts = extract.keyword_dicts()
    if order is not None:
        dicts = [dicts[i] for i in order]
    # dedicated rules that precede the generic word rule and match a whole dictionary word
    idx = [i for i, (rx, tt) in enumerate(K.SQL_REGEX) if tt is K.PROCESS_AS_KEYWORD][0]
    pre = [(re.compile(rx, re.IGNORECASE | re.UNICODE), str(tt)) for rx, tt in K.SQL_REGEX[:idx]]
    words = sorted({w for _, d in dicts for w in d})
    ded = {}
    for w in words:
        for rx, tt in pre:
            m = rx.match(w + ' ', 0)
            if m and m.end() == len(w):
                ded[w] = tt
                break

    def fn(d):
        return '{' + ', '.join('<<%s, %s>>' % (tlc.tla_str(k), tlc.tla_str(v)) for k, v in sorted(d.items())) + '}'
    probe = ['FOO', 'ZZ9', 'MY_COL', 'XSELECT', 'SELECTX', 'ORDERBY', 'TBL1', 'Q']
    probe = [p for p in probe if p not in words]
    text = ('DictsC == <<' + ',\n '.join(fn(d) for _, d in dicts) + '>>\nDedicatedC == ' + fn(ded)
            + '\nProbeC == {' + ', '.join(tlc.tla_str(p) for p in probe) + '}\n')
    return text, len(words), ded


def run(ctx):
    quick = ctx.tier == 'quick'
    rng = random.Random(ctx.seed)
    from sqlparse import lexer
    # ---- M: region opacity and tiling on the character-level model ------------------
    res = tlc.run(ctx.workdir, 'MC_LexProp', cfg('regions', SIG, 2 if quick else 3, False), extra_modules={'MC_LexProp': MC % ''},
                  workers=16, label='LexProp_regions', coverage=False, timeout=1500)
    ctx.add_tlc(res, 'LexProp regions: 12 kinds x 8 x 7 contexts x all bodies len<=%d over %d symbols' % (2 if quick else 3, len(SIG)))
    # ---- S->C (a): every short class string, model prediction vs the real lexer -------
    if quick:
        strings = run_lexprop(ctx, 'strings', SIG, 3, True, 'LexProp_strings', prefixes=[(s,) for s in SIG])
    else:
        strings = run_lexprop(ctx, 'strings', SIG, 4, True, 'LexProp_strings', prefixes=[(a, b) for a in SIG for b in SIG])
    ndrift = 0
    nclass = 0
    for rec in strings:
        syms = rec['text']
        want = [(('Name' if t[0] == 'Word' else t[0]), t[1]) for t in rec['toks']]
        variants = [lexclasses.concretise(syms)] + [lexclasses.concretise(syms, rng) for _ in range(1 if quick else 2)]
        first = None
        for v in variants:
            got = real_tokens(v)
            ctx.evals()
            if first is None:
                first = got
            elif got != first:
                nclass += 1
                if nclass <= 3:
                    ctx.drift('members of one class are not interchangeable: %r vs %r' % (variants[0], v))
            if got != want:
                ndrift += 1
                if ndrift <= 5:
                    ctx.drift('LexChars predicts %s for %r, the lexer gives %s' % (want, v, got))
        if len(want) >= 2:
            ctx.nontrivial(tuple(syms))
    ctx.cov['model_vs_lexer_disagreements'] = ndrift
    ctx.cov['class_member_disagreements'] = nclass
    ctx.cov['strings_compared'] = len(strings)
    # ---- S->C (b): region instances with long random bodies, full class members -----------
    regs = run_lexprop(ctx, 'regions', SIG, 12, True, 'LexProp_regions_sim', workers=1, simulate=2500 if quick else 30000, seed=ctx.seed + 7)
    regs += run_lexprop(ctx, 'regions', ['semi', 'sq', 'dq', 'star', 'slash', 'dash', 'lf', 'dollar', 'a'], 1 if quick else 2, True, 'LexProp_regions_small', workers=1)
    rec = LexRecorder()
    traces, meta = [], []
    seen = set()
    for r in regs:
        key = (r['kind'], tuple(r['text']))
        if key in seen:
            continue
        seen.add(key)
        for _ in range(1 if quick else 3):
            text = lexclasses.concretise(r['text'], rng)
            if r['kind'] == 'dollartag':
                # opener and closer carry the same tag
                lo, hi = r['lo'], r['hi']
                text = text[:hi - 3] + text[lo - 1:lo + 2] + text[hi:]
            tr = rec.record(text, len(traces))
            tr['region'] = {'lo': r['lo'], 'hi': r['hi'], 'ty': next(t[0] for t in r['toks'] if t[1] == r['hi']) if any(t[1] == r['hi'] for t in r['toks']) else '?'}
            # the region's type comes from the spec (TypeOf), independent of the model lexer's verdict
            tr['region']['ty'] = {'str': 'String.Single', 'dqname': 'String.Symbol', 'btname': 'Name', 'cmtm': 'Comment.Multiline',
                                  'cmt1': 'Comment.Single', 'dollar': 'Literal', 'dollartag': 'Literal', 'cmt1cr': 'Comment.Single',
                                  'cmt1hash': 'Comment.Single', 'hint1': 'Comment.Single.Hint', 'hint1cr': 'Comment.Single.Hint',
                                  'hintm': 'Comment.Multiline.Hint'}[r['kind']]
            for e in tr['ev']:
                e.pop('ty', None)
            traces.append(tr)
            meta.append({'kind': r['kind'], 'text': text, 'symbols': r['text']})
            ctx.evals()
            body = r['text'][r['lo'] - 1:r['hi']]
            if any(s in body[1:-1] for s in ('semi', 'sq', 'dq', 'bt', 'dollar', 'slash', 'dash', 'lf', 'hash')):
                ctx.nontrivial((r['kind'], tuple(r['text'])))
    # word contexts: "whatever delimiter or whitespace surrounds it" - also whatever WORDS precede it.  Every region
    # instance once more behind a phrase of keywords (typed-literal heads, multi-word keywords, random table words).
    # `at time zone` is left out: the rule table has a dedicated rule that makes AT TIME ZONE '...' one token.
    PHRASES = ['date ', 'timestamp ', 'time ', 'interval ', 'timestamp with time zone ', 'time without time zone ', 'with time zone ',
               'zone ', 'like ', 'not like ', 'escape ', 'values ', 'in ', 'is ', 'as ', 'default ', 'comment ', 'collate ', 'order by ',
               'group by ', 'union all ', 'not null ', 'end if ', 'left outer join ', 'create or replace ', 'WITH TIME ZONE\n', 'Time  Zone ']
    kwwords = sorted(w for w in extract.all_keyword_words() if w.isalpha())
    nbase = len(traces)
    for i in range(nbase):
        if quick and i % 3:
            continue
        ph = rng.choice(PHRASES) if rng.random() < 0.6 else rng.choice(kwwords).lower() + ' '
        base, reg = meta[i]['text'], traces[i]['region']
        text = ph + base
        tr = rec.record(text, len(traces))
        tr['region'] = {'lo': reg['lo'] + len(ph), 'hi': reg['hi'] + len(ph), 'ty': reg['ty']}
        for e in tr['ev']:
            e.pop('ty', None)
        traces.append(tr)
        meta.append({'kind': meta[i]['kind'], 'text': text, 'symbols': ['<' + ph + '>'] + meta[i]['symbols']})
        ctx.evals()
    ctx.cov['word_context_instances'] = len(traces) - nbase
    # long bodies: "whatever the body contains" includes how much - one instance of every region kind is pumped right
    # behind its opener with a neutral filler (no delimiter of any kind in it, but semicolons) past powers of two
    OPENER = {'str': 1, 'dqname': 1, 'btname': 1, 'cmtm': 2, 'cmt1': 2, 'dollar': 2, 'dollartag': 3, 'cmt1cr': 2, 'cmt1hash': 2,
              'hint1': 3, 'hint1cr': 3, 'hintm': 3}
    done = set()
    for i in range(nbase):
        k = meta[i]['kind']
        if k in done or k not in OPENER:
            continue
        done.add(k)
        base, reg = meta[i]['text'], traces[i]['region']
        for size in ((66000,) if quick else (5000, 66000, 140000)):
            fill = ';x ' * (size // 3)
            at = reg['lo'] - 1 + OPENER[k]
            text = base[:at] + fill + base[at:]
            tr = rec.record(text, len(traces))
            tr['region'] = {'lo': reg['lo'], 'hi': reg['hi'] + len(fill), 'ty': reg['ty']}
            for e in tr['ev']:
                e.pop('ty', None)
            traces.append(tr)
            meta.append({'kind': k, 'text': text, 'symbols': meta[i]['symbols'] + ['<pumped %d>' % size]})
            ctx.evals()
            ctx.nontrivial((k, 'pumped', size))
    ctx.cov['pumped_region_kinds'] = sorted(done)
    for m in meta[:3]:
        ctx.sample(m)
    rej = tracecheck.validate(ctx, 'TraceLexScan', traces, label='TraceLexScan_C14')
    for tid, (clause, step) in sorted(rej.items(), key=lambda kv: len(meta[kv[0]]['text'])):
        m = meta[tid]
        ctx.violation({'text': m['text'], 'input_cps': cps(m['text']), 'kind': m['kind'], 'symbols': m['symbols'], 'clause': clause,
                       'tags': ['c14:' + clause, 'region:' + m['kind']]},
                      'tokenize(%r): region of kind %s: %s' % (m['text'][:80], m['kind'], clause))
    # ---- keywords: first dictionary wins ---------------------------------------------------------
    ktext, nwords, ded = keyword_constants()
    mc = '---- MODULE MC_KeywordTable ----\nEXTENDS KeywordTable\n' + ktext + '====\n'
    kcfg = 'SPECIFICATION Spec\nCONSTANTS\n Dicts <- DictsC\n Dedicated <- DedicatedC\n Probe <- ProbeC\n Emit = TRUE\nINVARIANT EarliestWins\nINVARIANT PrintDone\n'
    kr = tlc.run(ctx.workdir, 'MC_KeywordTable', kcfg, extra_modules={'MC_KeywordTable': mc}, workers=1, label='KeywordTable', coverage=False, timeout=900)
    ctx.add_tlc(kr, 'KeywordTable: %d dictionary words' % nwords)
    import re
    wordrule = re.compile(r'\w[$#\w]*\Z')
    ctxs = [('', ''), (' ', ' '), ('(', ')'), ('\n', ';'), (',', ','), ('=', ' '), ('\t', '\r\n')]
    nkw = 0
    table = kr.printed[0] if kr.printed else {}
    if len(table) < 100:
        raise MachineryError('KeywordTable emitted no classification table')
    for w, ent in sorted(table.items()):
        ty = ent['ty']
        if not wordrule.match(w):
            continue                      # multi-word / hyphenated entries cannot be one word token
        for case in range(4):
            sp = w.upper() if case == 0 else w.lower() if case == 1 else w.capitalize() if case == 2 else \
                ''.join(c.upper() if rng.random() < 0.5 else c.lower() for c in w)
            for (l, r) in (ctxs if not quick else ctxs[:4]):
                toks = [(str(tt), v) for tt, v in lexer.tokenize(l + sp + r)]
                mid = [t for t in toks if t[1].upper() == w.upper()]
                nkw += 1
                ctx.evals()
                ok = len(mid) == 1 and mid[0][0] == ty
                if not ok:
                    ctx.violation({'word': w, 'spelling': sp, 'context': [l, r], 'expected': ty, 'tokens': toks, 'clause': 'keyword-classified-by-first-dictionary',
                                   'tags': ['c14:keyword', 'word:' + w]},
                                  'tokenize(%r): word %s should be one %s token, got %s' % (l + sp + r, w, ty, toks))
        ctx.nontrivial(('kw', w))
    # ---- the same claim for reconfigured lexers: private Lexer objects with the dictionaries registered in another
    # order / only some of them (Lexer.clear, set_SQL_REGEX, add_keywords) must classify by THEIR first dictionary
    from sqlparse import keywords as K
    from sqlparse.lexer import Lexer
    alld = extract.keyword_dicts()
    nd = len(alld)
    for order in ([list(range(nd))[::-1], [0], [nd - 1, 0]] if nd > 1 else []):
        ktext2, _, _ = keyword_constants(order)
        mc2 = '---- MODULE MC_KeywordTable ----\nEXTENDS KeywordTable\n' + ktext2 + '====\n'
        kr2 = tlc.run(ctx.workdir, 'MC_KeywordTable', kcfg, extra_modules={'MC_KeywordTable': mc2}, workers=1,
                      label='KeywordTable_%s' % '_'.join(map(str, order)), coverage=False, timeout=900)
        ctx.add_tlc(kr2, 'KeywordTable: dictionaries registered in order %s' % order)
        table2 = kr2.printed[0] if kr2.printed else {}
        lx = Lexer()
        lx.clear()
        lx.set_SQL_REGEX(K.SQL_REGEX)
        for i in order:
            lx.add_keywords(alld[i][1])
        allwords = sorted({w for _, d in alld for w in d})
        for w in allwords:
            if not wordrule.match(w):
                continue
            ty = table2[w]['ty'] if w in table2 else 'Token.Name'
            if w in ded:
                ty = ded[w]
            for sp in (w.upper(), w.lower()):
                toks = [(str(tt), v) for tt, v in lx.get_tokens(' ' + sp + ' ')]
                mid = [t for t in toks if t[1].upper() == w.upper()]
                nkw += 1
                ctx.evals()
                if not (len(mid) == 1 and mid[0][0] == ty):
                    ctx.violation({'word': w, 'spelling': sp, 'context': [' ', ' '], 'expected': ty, 'tokens': toks, 'order': order,
                                   'clause': 'keyword-classified-by-first-dictionary-of-reconfigured-lexer', 'tags': ['c14:keyword-reconf', 'word:' + w]},
                                  'private Lexer with dictionaries %s: word %s should be one %s token, got %s' % (order, sp, ty, toks))
    ctx.cov['keyword_probes'] = nkw
    ctx.cov['dedicated_rule_words'] = sorted(ded)
    ctx.assumptions += ['class representatives/members of lexclasses.py partition the characters as the rule table does (interchangeability is checked)',
                        'region replay bodies are random (TLC -simulate) beyond length 3']
    return ctx.finish(
        rule='TLC: all region bodies up to the bound x contexts on the character-level model (opacity, tiling, no `;` inside); every class string up to the bound '
             'emitted with the model token list and compared with the real lexer under canonical and random class members; TLC-simulated region instances with bodies up '
             'to 12 symbols concretised over the full character set and validated by TLC (TraceLexScan region clause); every dictionary word x 4 casings x contexts against '
             'KeywordTable.tla; non-trivial = string with >=2 tokens, region whose body contains a foreign delimiter, dictionary word')


def replay(rec):
    from ..core import Ctx
    import shutil
    c = rec['case']
    if 'input_cps' not in c:
        from sqlparse import lexer
        print(list(lexer.tokenize(c['context'][0] + c['spelling'] + c['context'][1])))
        return 0
    print('replay: region instances are regenerated by the check; stored input: %r' % uncps(c['input_cps']))
    return 0
