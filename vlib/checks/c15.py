"""C15 - pathological nesting is reported as SQLParseError, never a crash."""
import json
import os
import random
import subprocess
import sys
from concurrent.futures import ThreadPoolExecutor

from .. import tlc, tracecheck
from ..core import MachineryError, REPO, VERIF

LEVEL = 'fault_enumeration'

ENTRIES = {
    'parse': None, 'parsestream': None, 'split': None, 'split_semi': None,
    'format_reindent': {'reindent': True}, 'format_aligned': {'reindent_aligned': True},
    'format_strip': {'strip_comments': True, 'strip_whitespace': True, 'use_space_around_operators': True},
    'format_python': {'output_format': 'python', 'reindent': True, 'keyword_case': 'upper'},
    'format_plain': {'keyword_case': 'upper'},
}
KINDS = ['parens', 'unclosed', 'brackets', 'case', 'calls', 'subqueries', 'begin', 'opchain', 'list', 'mixed']

# recursive routines reachable from the entry points (DESIGN Appendix C): (module, attribute path)
TARGETS = [
    ('sqlparse.engine.grouping', '_group_matching'), ('sqlparse.engine.grouping', '_group'),
    ('sqlparse.engine.grouping', 'group_comments'), ('sqlparse.engine.grouping', 'group_identifier'),
    ('sqlparse.engine.grouping', 'group_where'), ('sqlparse.engine.grouping', 'group_functions'),
    ('sqlparse.engine.grouping', 'group_aliased'), ('sqlparse.engine.grouping', 'align_comments'),
    ('sqlparse.engine.grouping', 'group_order'), ('sqlparse.engine.grouping', 'group_over'),
    ('sqlparse.engine.grouping', 'group_values'),
    ('sqlparse.filters.others', 'StripCommentsFilter.process'), ('sqlparse.filters.others', 'StripWhitespaceFilter.process'),
    ('sqlparse.filters.others', 'SpacesAroundOperatorsFilter.process'), ('sqlparse.filters.others', 'SerializerUnicode.process'),
    ('sqlparse.filters.reindent', 'ReindentFilter.process'), ('sqlparse.filters.reindent', 'ReindentFilter._process_default'),
    ('sqlparse.filters.aligned_indent', 'AlignedIndentFilter.process'), ('sqlparse.filters.aligned_indent', 'AlignedIndentFilter._process_default'),
    ('sqlparse.filters.output', 'OutputFilter.process'),
    ('sqlparse.filters.others', 'StripTrailingSemicolonFilter.process'),
    ('sqlparse.utils', 'split_unquoted_newlines'),
]
FAULT_TEXT = 'select a, (select f(b) from (select 1) x where c = 1) from t where d in (1, 2); select case when e then 1 end'


def inject(modname, path, k):
    """patch the callable so that its k-th invocation raises RecursionError; returns (restore, counter)"""
    import importlib
    mod = importlib.import_module(modname)
    parts = path.split('.')
    holder = mod
    for p in parts[:-1]:
        holder = getattr(holder, p)
    name = parts[-1]
    raw = holder.__dict__[name] if name in holder.__dict__ else getattr(holder, name)
    is_static = isinstance(raw, staticmethod)
    orig = raw.__func__ if is_static else raw
    cnt = {'n': 0, 'hit': False}

    def wrapper(*a, **kw):
        cnt['n'] += 1
        if cnt['n'] == k:
            cnt['hit'] = True
            raise RecursionError('injected at %s.%s call %d' % (modname, path, k))
        return orig(*a, **kw)
    setattr(holder, name, staticmethod(wrapper) if is_static else wrapper)
    # grouping.group() captured the pass functions by name lookup at call time: module attribute patching suffices

    def restore():
        setattr(holder, name, raw)
    return restore, cnt


def call(entry):
    import sqlparse
    opts = ENTRIES[entry]
    if entry == 'parse':
        return sqlparse.parse(FAULT_TEXT)
    if entry == 'parsestream':
        return list(sqlparse.parsestream(FAULT_TEXT))
    if entry == 'split':
        return sqlparse.split(FAULT_TEXT)
    if entry == 'split_semi':
        return sqlparse.split(FAULT_TEXT, strip_semicolon=True)
    return sqlparse.format(FAULT_TEXT, **opts)


def run_sub(limit, cases, timeout):
    cmd = [sys.executable, os.path.join(VERIF, 'vlib', 'deeprun.py'), str(limit), json.dumps(cases), REPO]
    try:
        p = subprocess.run(cmd, stdout=subprocess.PIPE, stderr=subprocess.PIPE, timeout=timeout, text=True)
    except subprocess.TimeoutExpired as e:
        out = e.stdout.decode() if isinstance(e.stdout, bytes) else (e.stdout or '')
        return [json.loads(l[2:]) for l in out.splitlines() if l.startswith('@@')], 'timeout'
    res = [json.loads(l[2:]) for l in p.stdout.splitlines() if l.startswith('@@')]
    return res, p.returncode


def run(ctx):
    quick = ctx.tier == 'quick'
    import sqlparse
    from sqlparse.exceptions import SQLParseError
    # ---- M: where can RecursionError go ---------------------------------------
    cfg = ('SPECIFICATION Spec\nCONSTANTS\n NStmts = 2\n Emit = TRUE\nINVARIANT NoRecursionErrorEscapes\nINVARIANT RecAlwaysTranslated\n'
           'INVARIANT PrintFaults\n')
    r = tlc.run(ctx.workdir, 'Pipeline', cfg, workers=1, label='Pipeline_faults', coverage=False)
    ctx.add_tlc(r, 'Pipeline.tla fault points (api x stage x statement)')
    fault_points = {(p['api'], p['stage'], p['stmt']) for p in r.printed}
    ctx.cov['model_fault_points'] = len(fault_points)
    if not fault_points:
        raise MachineryError('Pipeline emitted no fault points')
    # ---- S->C: fault enumeration on the real callables --------------------------
    pristine = {e: (call(e) if e.startswith(('split', 'format')) else None) for e in ENTRIES}
    traces, meta = [], []
    for modname, path in TARGETS:
        for k in ((1, 2, 7) if quick else (1, 2, 3, 5, 9, 17)):
            for entry in ENTRIES:
                restore, cnt = inject(modname, path, k)
                outcome = 'ok'
                try:
                    try:
                        call(entry)
                    except SQLParseError:
                        outcome = 'SQLParseError'
                    except BaseException as e:  # noqa
                        outcome = type(e).__name__
                finally:
                    restore()
                later = 'ok'
                try:
                    if pristine[entry] is not None and call(entry) != pristine[entry]:
                        later = 'differs'
                    call('parse')
                except BaseException as e:  # noqa
                    later = type(e).__name__
                traces.append({'id': len(traces), 'api': entry, 'optvalid': True, 'outcome': outcome, 'lexed': True, 'accexc': 0,
                               'fault': '%s.%s#%d' % (modname, path, k), 'faulthit': cnt['hit'], 'later': later, 'exit': 0,
                               'roundtrip': True})
                meta.append({'entry': entry, 'fault': '%s.%s call %d' % (modname, path, k), 'hit': cnt['hit']})
                ctx.evals()
                if cnt['hit']:
                    ctx.nontrivial((entry, modname, path, k))
    ctx.cov['faults_hit'] = sum(1 for m in meta if m['hit'])
    # ---- C->S: real depth, subprocesses ----------------------------------------------
    depths = [50, 200, 400, 1000] if quick else [50, 200, 400, 1000, 3000, 10000]
    limits = [200, 1000] if quick else [100, 200, 1000, 5000]
    entries = ['parse', 'split', 'format_reindent', 'format_aligned', 'format_strip'] if quick else list(ENTRIES)
    jobs = []
    for lim in limits:
        for kind in KINDS:
            # depths relative to the limit as well: a pass that doubles the depth overflows between limit/2 and limit
            dl = sorted(set(depths + [int(lim * f) for f in ((0.3, 0.55, 0.8) if quick else (0.2, 0.3, 0.45, 0.55, 0.7, 0.8, 0.95, 1.05))]))
            cases = [{'kind': kind, 'depth': d, 'entry': e, 'opts': ENTRIES[e] or {}} for d in dl for e in entries
                     if not (quick and d >= 1000 and kind in ('case', 'subqueries', 'mixed', 'list', 'opchain'))
                     and not (d >= 3000 and kind in ('case', 'mixed', 'subqueries'))]
            jobs.append((lim, cases))
    nsub = 0
    with ThreadPoolExecutor(max_workers=16) as ex:
        futs = [(lim, cases, ex.submit(run_sub, lim, cases, 240 if quick else 1500)) for lim, cases in jobs]
        for lim, cases, f in futs:
            res, rc = f.result()
            nsub += 1
            done = {(x['kind'], x['depth'], x['entry']) for x in res}
            for x in res:
                traces.append({'id': len(traces), 'api': x['entry'], 'optvalid': True, 'outcome': x['outcome'], 'lexed': True, 'accexc': 0,
                               'fault': '', 'faulthit': False, 'later': x['later'], 'exit': 0, 'roundtrip': x['roundtrip']})
                meta.append({'entry': x['entry'], 'kind': x['kind'], 'depth': x['depth'], 'limit': lim})
                ctx.evals()
                ctx.nontrivial((x['kind'], x['depth'], x['entry'], lim))
            if rc == 'timeout':
                ctx.notes.append('limit %d kind %s: %d of %d cases not explored (time)' % (lim, cases[0]['kind'], len(cases) - len(res), len(cases)))
            elif rc != 0:
                missing = [c for c in cases if (c['kind'], c['depth'], c['entry']) not in done]
                c = missing[0] if missing else cases[-1]
                traces.append({'id': len(traces), 'api': c['entry'], 'optvalid': True, 'outcome': 'ok', 'lexed': True, 'accexc': 0,
                               'fault': '', 'faulthit': False, 'later': '', 'exit': int(rc) if isinstance(rc, int) else 1, 'roundtrip': True})
                meta.append({'entry': c['entry'], 'kind': c['kind'], 'depth': c['depth'], 'limit': lim, 'exit': rc})
    # ---- the first call of a process with (almost) no stack left: creation of the lexer singleton may overflow ----
    def first(lim, n):
        cmd = [sys.executable, os.path.join(VERIF, 'vlib', 'deeprun.py'), 'firstcall', str(lim), str(n), REPO]
        try:
            p = subprocess.run(cmd, stdout=subprocess.PIPE, stderr=subprocess.PIPE, timeout=120, text=True)
        except subprocess.TimeoutExpired:
            return None
        res = [json.loads(l[2:]) for l in p.stdout.splitlines() if l.startswith('@@')]
        return res[0] if res else {'kind': 'firstcall', 'depth': n, 'entry': 'parse', 'limit': lim, 'outcome': 'ok', 'roundtrip': True,
                                   'later': '', 'exit': p.returncode or 1}
    flim = 150
    with ThreadPoolExecutor(max_workers=16) as ex:
        for x in ex.map(lambda n: first(flim, n), range(flim - (70 if quick else 140), flim - 1, 1 if not quick else 2)):
            if x is None:
                continue
            nsub += 1
            traces.append({'id': len(traces), 'api': 'parse', 'optvalid': True, 'outcome': x['outcome'], 'lexed': True, 'accexc': 0,
                           'fault': '', 'faulthit': False, 'later': x['later'], 'exit': x.get('exit', 0), 'roundtrip': True})
            meta.append({'entry': 'parse (first library call of the process)', 'kind': 'firstcall', 'depth': x['depth'], 'limit': flim})
            ctx.evals()
            ctx.nontrivial(('firstcall', x['depth']))
    # ---- the first FORMATTING call of a process on deep input: lazily built state must not stay half built -------------
    def firstfmt(lim, d):
        cmd = [sys.executable, os.path.join(VERIF, 'vlib', 'deeprun.py'), 'firstformat', str(lim), str(d), REPO]
        try:
            p = subprocess.run(cmd, stdout=subprocess.PIPE, stderr=subprocess.PIPE, timeout=120, text=True)
        except subprocess.TimeoutExpired:
            return None
        res = [json.loads(l[2:]) for l in p.stdout.splitlines() if l.startswith('@@')]
        return res[0] if res else {'kind': 'firstformat', 'depth': d, 'entry': 'format_aligned', 'limit': lim, 'outcome': 'ok',
                                   'roundtrip': True, 'later': '', 'digest': None, 'exit': p.returncode or 1}
    flim2 = 250
    refrun = firstfmt(flim2, 1)
    if refrun is None or not refrun.get('digest'):
        raise MachineryError('C15: reference run of the first-format scenario failed')
    with ThreadPoolExecutor(max_workers=16) as ex:
        for x in ex.map(lambda d: firstfmt(flim2, d), range(4, 170, 1 if not quick else 1)):
            if x is None:
                continue
            nsub += 1
            later = x['later']
            if later == 'ok' and x.get('digest') != refrun['digest']:
                later = 'differs'
            outcome = x['outcome']
            traces.append({'id': len(traces), 'api': 'format_aligned', 'optvalid': True, 'outcome': outcome, 'lexed': True, 'accexc': 0,
                           'fault': '', 'faulthit': False, 'later': later, 'exit': x.get('exit', 0), 'roundtrip': True})
            meta.append({'entry': 'format(reindent_aligned) as the first formatting call of the process', 'kind': 'nested subqueries',
                         'depth': x['depth'], 'limit': flim2})
            ctx.evals()
            ctx.nontrivial(('firstformat', x['depth']))
    ctx.cov['subprocesses'] = nsub
    for m in meta[:1] + meta[-2:]:
        ctx.sample(m)
    rej = tracecheck.validate(ctx, 'TracePipeline', traces, label='TracePipeline_C15', min_chunk=100)
    for tid, (clause, step) in sorted(rej.items()):
        ctx.violation({'case': meta[tid], 'clause': clause, 'outcome': traces[tid]['outcome'], 'tags': ['c15:' + clause]},
                      '%s: %s (outcome %s, later %s)' % (meta[tid], clause, traces[tid]['outcome'], traces[tid]['later']))
    ctx.assumptions += ['stack exhaustion inside the C runtime is observed only as the subprocess exit status',
                        'a per-case timeout means "not explored"; split() never groups, so str(stmt) in the caller does not recurse (checked by the deep runs)']
    return ctx.finish(
        rule='fault enumeration: RecursionError injected at the k-th call of each of %d recursive routines x %d entry points (outcome must be SQLParseError when hit, '
             'later calls pristine); deep nesting: %d constructs x depths %s x recursion limits %s x entry points in subprocesses; TLC (TracePipeline.tla) decides '
             'each case; non-trivial = fault that was hit or distinct (construct, depth, entry, limit)' % (len(TARGETS), len(ENTRIES), len(KINDS), depths, limits))


def replay(rec):
    print('replay: fault points and deep inputs are regenerated by the check; stored case: %s' % rec['case'])
    return 0
