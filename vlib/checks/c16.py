"""C16 - no lexical rule can backtrack exponentially."""
import itertools
import random
import re
import time

from .. import tlc, regexnfa, extract
from ..core import MachineryError

LEVEL = 'model_checking'

KNOWN_BAD = [r'(a+)+b', r'(a|a)*b', r'(a*)*b', r"'(''|\\\\|\\'|[^'])*'", r'(\s*\w+\s*)*;', r'(\r|\n|\r\n)+ *$x']
KNOWN_OK = [r'a*a*b', r"'(''|\\'|[^'])*'", r'(ab|cd)*e']


def library_patterns():
    """every regular expression the library actually runs, as (source, flags, where):
    (a) the patterns COMPILED into the default lexer's rule list - set_SQL_REGEX may rewrite the sources of the table;
    (b) every re.Pattern object reachable from the modules of the sqlparse package (module globals, class attributes,
        one level of lists / tuples / dicts) - a regular expression applied to every word or token outside the rule table
        backtracks just as well"""
    import sys
    import sqlparse  # noqa
    import sqlparse.cli  # noqa
    from sqlparse import keywords, lexer
    out = []
    table = [rx for rx, _ in keywords.SQL_REGEX]
    compiled = None
    try:
        rl = lexer.Lexer.get_default_instance()._SQL_REGEX
        compiled = [(m.__self__.pattern, m.__self__.flags) for m, _ in rl]
    except Exception:  # noqa  (another representation: fall back to the source table)
        compiled = None
    if compiled:
        out += [(src, fl, 'lexer rule %d' % i) for i, (src, fl) in enumerate(compiled)]
    else:
        out += [(src, regexnfa.FLAGS, 'SQL_REGEX[%d]' % i) for i, src in enumerate(table)]
    nrules = len(out)
    seen = {(src, fl) for src, fl, _ in out}

    def visit(v, where, depth=0):
        if isinstance(v, re.Pattern):
            if (v.pattern, v.flags) not in seen and isinstance(v.pattern, str):
                seen.add((v.pattern, v.flags))
                out.append((v.pattern, v.flags, where))
        elif depth < 2 and isinstance(v, (list, tuple, set, frozenset)):
            for x in list(v)[:2000]:
                visit(x, where, depth + 1)
        elif depth < 2 and isinstance(v, dict):
            for x in list(v.values())[:2000]:
                visit(x, where, depth + 1)
    # (c) patterns compiled on the fly (Token.match(regex=True) builds them from string tuples in the filters): observed
    #     by wrapping re._compile while a workload touches every filter
    orig = getattr(re, '_compile', None)
    if orig is not None:
        logged = []

        def spy(pattern, flags):
            if isinstance(pattern, str):
                f = sys._getframe(1)
                for _ in range(4):
                    if f is None:
                        break
                    if '/sqlparse/' in f.f_code.co_filename:
                        logged.append((pattern, int(flags) | (re.UNICODE if isinstance(pattern, str) else 0), f.f_code.co_filename.split('/sqlparse/')[-1] + ':' + f.f_code.co_name))
                        break
                    f = f.f_back
            return orig(pattern, flags)
        re._compile = spy
        try:
            import sqlparse as _sp
            work = ("select a, b as c from t left outer join u on t.x = u.y where z in (select 1) and w = 2 group by a having b > 1 "
                    "order by a desc limit 3; insert into t (a, b) values (1, 'x'); create table foo (id integer primary key); "
                    "update t set a = case when b then 1 else 2 end where c between 1 and 2 -- c\n; select 1 union all select 2")
            for kw in (dict(reindent=True), dict(reindent_aligned=True), dict(reindent=True, comma_first=True, indent_columns=True),
                       dict(strip_comments=True, use_space_around_operators=True, strip_whitespace=True),
                       dict(keyword_case='upper', identifier_case='lower', truncate_strings=3), dict(output_format='python'),
                       dict(output_format='php', reindent=True, wrap_after=10)):
                _sp.format(work, **kw)
            for st in _sp.parse(work):
                st.get_type()
        except Exception:  # noqa
            pass
        finally:
            re._compile = orig
        for pat, fl, where in logged:
            if (pat, fl) not in seen:
                seen.add((pat, fl))
                out.append((pat, fl, 'compiled in ' + where))
    for name, mod in sorted(sys.modules.items()):
        if not (name == 'sqlparse' or name.startswith('sqlparse.')) or mod is None:
            continue
        for an, av in sorted(vars(mod).items()):
            visit(av, '%s.%s' % (name, an))
            if isinstance(av, type) and getattr(av, '__module__', '').startswith('sqlparse'):
                for cn, cv in sorted(vars(av).items()):
                    visit(cv, '%s.%s.%s' % (name, an, cn))
    return out, nrules


def analyse(patterns):
    """-> per rule dict, atoms partition, TLA+ constant text"""
    rules = []
    atoms = []
    for rx in patterns:
        fl = None
        if isinstance(rx, tuple):
            rx, fl = rx
        nfa = regexnfa.build(rx, fl)
        ms, edges, acc = regexnfa.macro(nfa)
        rules.append({'rx': rx, 'nfa': nfa, 'ms': ms, 'edges': edges, 'acc': acc})
        for (p, at, pid, q) in edges:
            atoms.append(at)
    # unique atoms by identity
    seen = {}
    ua = []
    for a in atoms:
        if id(a) not in seen:
            seen[id(a)] = True
            ua.append(a)
    reps, amap = regexnfa.partition(ua)
    return rules, reps, amap


def tla_constants(rules, amap):
    out_items = []
    pivots = []
    for ri, r in enumerate(rules, 1):
        by = {}
        pid_ix = {}
        for (p, at, pid, q) in r['edges']:
            e = pid_ix.setdefault(pid, len(pid_ix) + 1)
            cs = amap[id(at)]
            if not cs:
                continue
            by.setdefault(p, []).append('[q |-> %d, e |-> %d, cs |-> {%s}]' % (q, e, ', '.join(map(str, sorted(cs)))))
        for p, lst in sorted(by.items()):
            out_items.append('<<%d, %d>> :> {%s}' % (ri, p, ', '.join(lst)))
            pivots.append('<<%d, %d>>' % (ri, p))
    return 'OutC == (' + ' @@\n  '.join(out_items) + ')\nPivotsC == {' + ', '.join(pivots) + '}\n'


def run_tlc(ctx, rules, amap, label):
    mc = '---- MODULE MC_RegexNFA ----\nEXTENDS RegexNFA\n' + tla_constants(rules, amap) + '====\n'
    cfg = 'SPECIFICATION Spec\nCONSTANTS\n Out <- OutC\n Pivots <- PivotsC\nINVARIANT PrintEDA\n'
    res = tlc.run(ctx.workdir, 'MC_RegexNFA', cfg, extra_modules={'MC_RegexNFA': mc}, workers=16, label=label, timeout=1200, coverage=False)
    ctx.add_tlc(res, '%s: product automaton of %d rules' % (label, len(rules)))
    bad = set()
    for m in re.finditer(r'<<\s*"EDA",\s*(\d+),\s*(\d+)\s*>>', res.out):
        bad.add((int(m.group(1)), int(m.group(2))))
    return bad


def pump_for(rule, reps, amap, pivot=None):
    """(prefix, pump, suffix-breaker) as strings for a loop of the rule's macro graph (shortest)"""
    edges = rule['edges']
    adj = {}
    for (p, at, pid, q) in edges:
        cs = amap[id(at)]
        if cs:
            adj.setdefault(p, []).append((q, min(cs)))

    def bfs(src, dst, nonempty=False):
        from collections import deque
        dq = deque([(src, [])])
        seen = set()
        while dq:
            s, w = dq.popleft()
            if s == dst and (w or not nonempty):
                return w
            for q, c in adj.get(s, []):
                if (q, len(w) > 0) in seen:
                    continue
                seen.add((q, len(w) > 0))
                dq.append((q, w + [c]))
        return None
    start = rule['nfa'].start
    cands = [pivot] if pivot else rule['ms']
    best = None
    for q in cands:
        pre = bfs(start, q)
        if pre is None:
            continue
        cyc = bfs(q, q, nonempty=True)
        if cyc is None:
            continue
        if best is None or len(cyc) < len(best[1]):
            best = (pre, cyc)
    if best is None:
        return None
    pre, cyc = best
    to = lambda w: ''.join(chr(reps[c - 1]) for c in w)
    return to(pre), to(cyc)


def eda_witness(rule, reps, amap, pivot):
    """shortest word w with two DIFFERENT paths pivot -w-> pivot (the product-automaton path TLC found, recomputed
    with the word): returns (prefix, w) as strings or None"""
    from collections import deque
    out = {}
    for (p, at, pid, q) in rule['edges']:
        cs = amap[id(at)]
        if cs:
            out.setdefault(p, []).append((q, pid, cs))
    start = (pivot, pivot, False)
    dq = deque([(start, [])])
    seen = {start}
    word = None
    while dq:
        (a, b, div), w = dq.popleft()
        if w and div and a == pivot and b == pivot:
            word = w
            break
        if len(w) > 60:
            continue
        for (q1, e1, c1) in out.get(a, []):
            for (q2, e2, c2) in out.get(b, []):
                both = c1 & c2
                if not both:
                    continue
                st = (q1, q2, div or e1 != e2)
                if st in seen:
                    continue
                seen.add(st)
                dq.append((st, w + [min(both)]))
    if word is None:
        return None
    pp = pump_for(rule, reps, amap, pivot)
    pre = pp[0] if pp else ''
    return pre, ''.join(chr(reps[c - 1]) for c in word)


def cpu_time(fn, repeat=3):
    best = None
    for _ in range(repeat):
        t0 = time.process_time()
        fn()
        dt = time.process_time() - t0
        best = dt if best is None else min(best, dt)
    return best


def run(ctx):
    quick = ctx.tier == 'quick'
    rng = random.Random(ctx.seed)
    from sqlparse import keywords, lexer
    lib, nrules = library_patterns()
    patterns = [src for src, _, _ in lib]
    pflags = [fl for _, fl, _ in lib]
    ctx.cov['patterns_outside_rule_table'] = [w for _, _, w in lib[nrules:]]
    # ---- vacuity guard: the analysis flags the known-bad patterns and only those ----
    g_rules, g_reps, g_amap = analyse(KNOWN_BAD + KNOWN_OK)
    g_bad = {r for r, _ in run_tlc(ctx, g_rules, g_amap, 'RegexNFA_selftest')}
    want = set(range(1, len(KNOWN_BAD) + 1))
    if g_bad != want:
        raise MachineryError('EDA analysis self-test failed: flagged %s, expected %s' % (sorted(g_bad), sorted(want)))
    ctx.notes.append('self-test ok: %d known-bad patterns flagged, %d known-good not flagged' % (len(KNOWN_BAD), len(KNOWN_OK)))
    # ---- M: the current rule table -------------------------------------------------
    rules, reps, amap = analyse(list(zip(patterns, pflags)))
    ctx.cov['rules'] = len(rules)
    ctx.cov['char_classes'] = len(reps)
    ctx.cov['nfa_macro_states'] = sum(len(r['ms']) for r in rules)
    bad = run_tlc(ctx, rules, amap, 'RegexNFA_rules')
    # ---- binding the NFA to re: accepts <=> fullmatch on class strings ------------------
    nbind = 0
    compiled = [re.compile(rx, fl) for rx, fl in zip(patterns, pflags)]
    used_classes = sorted({c for r in rules for (p, at, pid, q) in r['edges'] for c in amap[id(at)]})
    L = 3 if quick else 4
    for ri, r in enumerate(rules):
        cls = sorted({c for (p, at, pid, q) in r['edges'] for c in amap[id(at)]})
        # classes this rule distinguishes: group by membership vector over its own atoms
        sigs = {}
        ratoms = []
        for (p, at, pid, q) in r['edges']:
            if id(at) not in [id(x) for x in ratoms]:
                ratoms.append(at)
        for c in used_classes:
            k = tuple(c in amap[id(a)] for a in ratoms)
            sigs.setdefault(k, c)
        alpha = sorted(sigs.values())
        if len(alpha) > 7:
            alpha = alpha[:7]
        for n in range(0, L + 1):
            for w in itertools.product(alpha, repeat=n):
                if len(alpha) ** n > 3000 and rng.random() > 3000.0 / len(alpha) ** n:
                    continue
                text = ''.join(chr(reps[c - 1]) for c in w)
                a = regexnfa.nfa_accepts(r['ms'], r['edges'], r['acc'], r['nfa'].start, w, amap)
                b = compiled[ri].fullmatch(text) is not None
                nbind += 1
                ctx.evals()
                if b and not a:
                    ctx.drift('NFA of rule %d (%s) rejects %r which re accepts' % (ri, patterns[ri][:30], text))
                if a and not b and not r['nfa'].overapprox:
                    ctx.drift('NFA of rule %d (%s) accepts %r which re rejects' % (ri, patterns[ri][:30], text))
    ctx.cov['nfa_re_agreement_strings'] = nbind
    ctx.traces(nbind)
    # ---- S->C: pump strings on the real lexer (in killable subprocesses) ----------------------
    import json as _json
    import os as _os
    import subprocess as _sp
    import sys as _sys
    from concurrent.futures import ThreadPoolExecutor
    from ..core import REPO, VERIF
    sizes = [16, 24, 32, 48, 64, 128, 256, 500, 1000, 2000, 4000] + ([] if quick else [8000, 16000])
    base = cpu_time(lambda: list(lexer.tokenize('select a, b from t where x = 1 ' * 200)))
    budget = max(2.0, 60 * base)
    jobs = []
    for ri, r in enumerate(rules):
        pivots = [p for (rr, p) in bad if rr == ri + 1] or [None]
        for pv in pivots[:3]:
            pp = pump_for(r, reps, amap, pv)
            if pv is not None:
                # the pump of a flagged pivot is the AMBIGUOUS word (two ways back to the pivot), not just any cycle
                pp = eda_witness(r, reps, amap, pv) or pp
            if pp is None:
                continue
            pre, cyc = pp
            # what stops the match: nothing, and one character of every class (flagged rules: all classes, else a few)
            sufs = [''] + [chr(c) for c in (reps if pv is not None else reps[:1] + [0, 32, 36, 35, 233])]
            for suffix in sorted(set(sufs)):
                jobs.append({'id': len(jobs), 'rule': ri, 'pre': pre, 'cyc': cyc, 'suf': suffix, 'sizes': sizes, 'cap': budget,
                             'eda': pv is not None})
        if ri < 3:
            ctx.sample({'rule': patterns[ri], 'pump': pump_for(r, reps, amap)})

    def runchunk(chunk):
        p = _sp.Popen([_sys.executable, _os.path.join(VERIF, 'vlib', 'pumprun.py'), REPO], stdin=_sp.PIPE, stdout=_sp.PIPE,
                      stderr=_sp.DEVNULL, text=True)
        import signal as _signal
        try:
            out, _ = p.communicate(_json.dumps(chunk), timeout=max(600.0, 200 * budget))
            # the child limits the CPU time of every single measurement itself (RLIMIT_CPU): SIGXCPU = a measurement overran
            killed = p.returncode == -_signal.SIGXCPU
        except _sp.TimeoutExpired:
            # wall clock only (a loaded machine): says nothing about the regular expressions - not explored, no alarm
            p.kill()
            out, _ = p.communicate()
            killed = False
            ctx.notes.append('pump chunk of rule %d cut by the wall-clock limit: remaining sizes not explored' % chunk[0]['rule'])
        return [_json.loads(l[2:]) for l in out.splitlines() if l.startswith('@@')], killed
    by_rule = {}
    for jb in jobs:
        by_rule.setdefault(jb['rule'], []).append(jb)
    worst = 0.0
    with ThreadPoolExecutor(max_workers=16) as ex:
        futs = [(chunk, ex.submit(runchunk, chunk)) for chunk in by_rule.values()]
        for chunk, f in futs:
            res, killed = f.result()
            meas = {}
            for x in res:
                meas.setdefault(x['job'], []).append((x['n'], x['t']))
            for jb in chunk:
                ms = meas.get(jb['id'], [])
                ctx.evals(len(ms))
                ctx.nontrivial((jb['rule'], jb['pre'], jb['cyc'], jb['suf']))
                times = [t for _, t in ms]
                worst = max([worst] + times)
                incomplete = len(ms) < len(sizes)
                over = bool(times) and times[-1] > budget
                # a job after the killed one has no data at all: only the first incomplete job of a killed chunk is blamed
                if over or (killed and incomplete and (ms or jb is chunk[0] or all(len(meas.get(o['id'], [])) == len(sizes) for o in chunk[:chunk.index(jb)]))):
                    ctx.violation({'rule': jb['rule'], 'pattern': patterns[jb['rule']], 'prefix': jb['pre'], 'pump': jb['cyc'], 'suffix': jb['suf'],
                                   'measurements': ms, 'tags': ['c16:time'] + (['eda-witness'] if jb['eda'] else [])},
                                  'rule %d %r: tokenizing prefix+pump^n+suffix exceeds the CPU budget of %.1f s (measurements (n, s): %s%s)'
                                  % (jb['rule'], patterns[jb['rule']][:40], budget, [(n, round(t, 3)) for n, t in ms], ', killed' if killed else ''))
                    if killed:
                        break
    for (rr, p) in sorted(bad):
        ctx.unrealised('RegexNFA flags rule %d (%s) pivot %d as exponentially ambiguous; pump strings stayed within the time budget' % (rr - 1, patterns[rr - 1][:40], p)) \
            if not ctx.violations else None
    ctx.cov['eda_flagged_rules'] = sorted({rr - 1 for rr, _ in bad})
    ctx.cov['worst_pump_cpu_s'] = round(worst, 3)
    ctx.cov['time_budget_s'] = round(budget, 2)
    ctx.assumptions += ['the ambiguity criterion is decided on an over-approximating NFA (look-around = epsilon, back-reference = copy of the group)',
                        'running time itself is measured (CPU time, best of 2-3), not model-checked; CPython re internals are not modelled']
    return ctx.finish(
        rule='TLC explores the product automaton of every rule of the current table (RegexNFA.tla, constants extracted from sre parse trees) for exponential ambiguity; '
             'the NFA is bound to re by fullmatch agreement on all class strings up to length %d; for every rule with a loop, prefix+pump^n+suffix strings '
             '(n up to %d characters, 4 suffixes) are tokenized under a CPU-time budget with a growth-ratio test; non-trivial = distinct (rule, pump, suffix)' % (L, sizes[-1]))


def replay(rec):
    c = rec['case']
    from sqlparse import lexer
    text = c['prefix'] + c['pump'] * 2000 + c['suffix']
    t = cpu_time(lambda: list(lexer.tokenize(text)), repeat=1)
    print('tokenize of %d chars took %.2f s' % (len(text), t))
    if t > 10:
        print('VIOLATION property=C16 replay=%s' % rec.get('replay', '?'))
        return 1
    return 0
