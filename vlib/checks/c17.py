"""C17 - procedural bodies (CREATE ... BEGIN ... END;) stay one statement."""
import glob
import os
import random

from .. import tlc, tracecheck, splitfam
from ..core import REPO, MachineryError
from ..spell import spell, checked_pools

LEVEL = 'model_checking'

ALL = ['proc', 'if', 'nestedbegin', 'whiledo', 'loop', 'caseexpr_body', 'createplain',
       'for', 'whileloop', 'casestmt', 'declare', 'caseexpr_header']
# construct flag -> trigger tag a script must carry for a failure to be attributed to it
TRIGGER_OF = {'for': 'T_for_endloop', 'whileloop': 'T_while_endloop',
              'casestmt': 'T_end_case', 'declare': 'T_declare'}

SINGLE_STMT_FIXTURES = ['function.sql', 'function_psql.sql', 'function_psql2.sql',
                        'function_psql3.sql', 'function_psql4.sql', 'begintag_2.sql',
                        'multiple_case_in_begin.sql']


def known_bad_constructs(ctx):
    bad = {}
    for k in ctx.known:
        if k.get('status') == 'known':
            for c in k.get('constructs', []):
                bad[c] = k
    return bad


def fixture_traces(start_id):
    import sqlparse
    out = []
    texts = []
    for fn in SINGLE_STMT_FIXTURES:
        p = os.path.join(REPO, 'tests', 'files', fn)
        if not os.path.exists(p):
            continue
        body = open(p, encoding='utf-8').read().rstrip()
        if not body.endswith(';'):
            body += ';'
        for pre, post in (('select 1;\n', '\nselect 2;'), ('', '\nupdate t set a = 1;\n'),
                          ('/* c */ delete from x;\n\n', '')):
            text = pre + body + post
            tr = splitfam.tok_trace(start_id + len(out), text)
            # annotation: the final `;` of pre, of the fixture and of post
            kinds = tr['kinds']
            from sqlparse import lexer
            toks = list(lexer.tokenize(text))
            off = 0
            ends = []
            if pre:
                ends.append(len(pre.rstrip()) - 1)
            ends.append(len(pre) + len(body) - 1)
            if post:
                ends.append(len(text.rstrip()) - 1)
            fin = []
            for tt, v in toks:
                fin.append(off in ends and v == ';')
                off += len(v)
            if sum(fin) != len(ends):
                continue
            tr['fin'] = fin
            tr['annotated'] = True
            out.append(tr)
            texts.append(text)
    return out, texts


def run(ctx):
    quick = ctx.tier == 'quick'
    rng = random.Random(ctx.seed)
    bad = known_bad_constructs(ctx)
    clean = [c for c in ALL if c not in bad]
    depth = 5 if quick else 6
    # ---- M: lock-step model checking ----------------------------------
    # (a) the faithful model restricted to constructs without a recorded finding must be clean;
    # (b) with all constructs: every reachable bad state is collected as a witness and replayed.
    res, wit_clean = splitfam.model_check(ctx, clean, depth, 'C17_lockstep_clean')
    for a in ('Step', 'Stop'):
        if res.coverage.get(a, 0) == 0:
            raise MachineryError('lock-step action %s never taken' % a)
    res_all, wit_all = splitfam.model_check(ctx, ALL, depth - 1, 'C17_lockstep_all')
    model_cexs = []
    seen_cls = set()
    for w in wit_clean + wit_all:
        ks = [h['k'] for h in w['hist']]
        key = (w['bad'], tuple(splitfam.triggers(ks)), w in wit_clean)
        if key in seen_cls and len(model_cexs) > 40:
            continue
        seen_cls.add(key)
        model_cexs.append((repr(key), w['hist']))
    ctx.cov['model_witness_classes'] = len(seen_cls)
    for c in sorted(set(bad)):
        if not any(c in str(h['lab']) or (c == 'whileloop' and h['lab'] == 'while') or (c == 'casestmt' and h['lab'] == 'case')
                   for w in wit_all for h in w['hist']):
            ctx.notes.append('known finding %s: the splitter model no longer violates the property with construct %s (stale entry?)'
                             % (bad[c]['key'], c))
    # ---- S->C: TLC behaviours into the real splitter ------------------
    checked_pools()
    scripts = []
    n = 600 if quick else 9000
    for i, part in enumerate([ALL, ['proc', 'if', 'nestedbegin', 'for', 'whileloop', 'loop', 'whiledo'],
                              ['proc', 'casestmt', 'caseexpr_body', 'declare', 'if']]):
        scripts += splitfam.emit_scripts(ctx, part, depth, 'C17_emit_%d' % i, simulate=n // 3,
                                         maxlen=40 if quick else 60, minlen=8, seed=ctx.seed * 7 + i + 1)
    cover = splitfam.cover_scripts(ctx, ALL, depth - 1 if quick else depth - 1, 'C17_cover', transitions=not quick)
    TXBEGIN = [{'k': 'begin', 'lab': 'begin', 'fin': False}, {'k': 'semi', 'lab': 'semi', 'fin': True},
               {'k': 'other', 'lab': 'name', 'fin': False}, {'k': 'semi', 'lab': 'semi', 'fin': True}]
    for i, c in enumerate(cover):
        for j in (range(len(splitfam.PROBES)) if not quick else [i]):
            scripts.append({'hist': splitfam.with_probe(c['hist'], j)})
        if i % 2 == 0:
            # the statements BEFORE the procedure are part of the script: an open transaction BEGIN; must not leak into it
            scripts.append({'hist': TXBEGIN + splitfam.with_probe(c['hist'], i)})
    ctx.cov['cover_scripts'] = len(cover)
    for lab, cex in model_cexs:
        if cex:
            scripts.append({'hist': cex, 'bad': 'model-cex:' + lab})
    traces, meta = [], []
    unspellable = 0
    seen = set()
    for s in scripts:
        hist = s['hist']
        if not any(h['k'] == 'create' for h in hist):
            continue
        key = tuple((h['lab']) for h in hist)
        if key in seen:
            continue
        seen.add(key)
        for variant in range(2):
            text = spell(hist, rng, canonical=(variant == 0))
            tr = splitfam.tok_trace(len(traces), text, hist, fallback=True)
            ctx.evals()
            if tr is None:
                unspellable += 1
                continue
            traces.append(tr)
            meta.append({'text': text, 'labels': [h['lab'] for h in hist], 'model_bad': s.get('bad', '')})
            if sum(1 for h in hist if h['k'] == 'semi' and not h['fin']) >= 1:
                ctx.nontrivial(key)
    ftr, ftexts = fixture_traces(len(traces))
    for tr, t in zip(ftr, ftexts):
        traces.append(tr)
        meta.append({'text': t, 'labels': ['fixture'], 'model_bad': ''})
        ctx.evals()
        ctx.nontrivial(t)
    if not traces:
        raise MachineryError('no traces recorded')
    for m in meta[:3] + meta[-2:]:
        ctx.sample({'script': m['text'], 'labels': m['labels']})
    rej = tracecheck.validate(ctx, 'TraceSplit', traces, label='TraceSplit_C17')
    drift = set(ctx.last_drift)
    for tid in sorted(drift)[:3]:
        ctx.drift('Splitter.tla predicts other pieces than the code for %r' % meta[tid]['text'][:80])
    ctx.cov['drift'] = len(drift)
    realised = set()
    for tid, (clause, step) in sorted(rej.items(), key=lambda kv: len(meta[kv[0]]['text'])):
        m = meta[tid]
        tags = splitfam.triggers(traces[tid]['kinds'])
        if tid not in drift:
            tags.append('model-predicts-observed')
        case = {'text': m['text'], 'labels': m['labels'], 'clause': clause, 'step': step, 'tags': tags,
                'kinds': traces[tid]['kinds'], 'piece': traces[tid]['piece'], 'fin': traces[tid]['fin']}
        if m['model_bad'].startswith('model-cex'):
            realised.add(m['model_bad'])
        ctx.violation(case, 'split/parse of %r: %s at token %d' % (m['text'][:100], clause, step))
    nun = sum(1 for lab, cex in model_cexs if ('model-cex:' + lab) not in realised)
    if nun:
        ctx.unrealised('%d of %d lock-step witnesses did not fail on the code (unspellable or model over-approximation)' % (nun, len(model_cexs)))
    ctx.cov['unspellable'] = unspellable
    ctx.assumptions += ['scripts are those of ScriptGen.tla (DESIGN 4.6 Proc grammar) spelled from verified pools',
                        'piece membership of a token is taken from sqlparse.parse() statement extents; split() count compared']
    return ctx.finish(
        rule='TLC lock-step model (script of any length, frame depth<=%d); TLC-emitted scripts (simulate + exhaustive short) spelled twice and run through parse()/split(); '
             'non-trivial = distinct abstract script with >=1 inner semicolon inside a CREATE body; repo procedure fixtures embedded between plain statements' % depth)


def replay(rec):
    return splitfam.replay_tok('C17', rec)
