"""C18 - Statement.get_type() names the statement's leading DML/DDL keyword."""
import itertools
import random

from . import c12
from ..core import cps

LEVEL = 'model_checking'
PID = 'C18'
PROPS = ['C18']
START = [('Script', 12, 70)]

HEADS = [('select', 'SELECT', ' 1'), ('insert', 'INSERT', ' into t values (1)'), ('update', 'UPDATE', ' t set a = 1'),
         ('delete', 'DELETE', ' from t'), ('create', 'CREATE', ' table t (a int)'), ('drop', 'DROP', ' table t'),
         ('alter', 'ALTER', ' table t add c int'), ('create or replace', 'CREATE OR REPLACE', ' view v as select 1'),
         ('with x as (select 1) select', 'SELECT', ' * from x'), ('with x as (select 1), y as (select 2) insert', 'INSERT', ' into t select * from x'),
         ('merge', 'MERGE', ' into t using s on a = b'), ('with recursive x as (select 1) select', 'SELECT', ' * from x'),
         ('with recursive r (n) as (select 1 union all select n + 1 from r) update', 'UPDATE', ' t set a = 1'), ('replace', 'REPLACE', ' into t values (1)'), ('truncate', 'TRUNCATE', ' table t'),
         ('commit', 'COMMIT', ''), ('foo', 'UNKNOWN', ' bar'), ('(select 1)', 'UNKNOWN', ''), ('values', 'UNKNOWN', ' (1)'),
         ('explain', 'UNKNOWN', ' select 1'), ('begin', 'UNKNOWN', '')]
PREFIX = ['', ' ', '\n\t', '-- c\n', '/* c */ ', '/*+ h */', ' -- a\n /* b */\n', '\r\n', '/* x **/ ', '/***/', '# c\n', "-- don't\n",
          '/* a\n * b\n **/\n']
CONT = ['', ';', '\n', ' -- t']


def recase(s, mode, rng):
    if mode == 0:
        return s
    if mode == 1:
        return s.upper()
    if mode == 2:
        return s.capitalize()
    return ''.join(c.upper() if rng.random() < 0.5 else c.lower() for c in s)


def respace(s, rng, mode):
    if mode == 0:
        return s
    fill = ['  ', '\t', '\n', ' \n ', '\r\n'][mode - 1]
    return fill.join(s.split(' '))


def count_nontrivial(ctx, tr, sp):
    for x in tr['stmts']:
        ctx.nontrivial((x['exp'], tuple(x['lead'])))


def extra_traces(ctx, rng, quick, start_id):
    import sqlparse
    traces, meta = [], []
    for (head, exp, rest), pre, cont in itertools.product(HEADS, PREFIX, CONT):
        for casing in range(4):
            for spacing in (range(6) if ' ' in head and len(head) < 20 else [0]):
                if quick and rng.random() < 0.5:
                    continue
                text = pre + respace(recase(head, casing, rng), rng, spacing) + rest + cont
                try:
                    st = sqlparse.parse(text)
                    got = st[0].get_type() if st else 'UNKNOWN'
                    exc = ''
                except Exception as e:  # noqa
                    got, exc = '', type(e).__name__
                tr = {'id': start_id + len(traces), 'text': cps(text), 'exc': exc, 'ids': [], 'wheres': [], 'lists': [], 'fns': [],
                      'cases': [], 'cmps': [], 'tls': [], 'pars': [], 'stmts': [{'exp': exp, 'got': got, 'lead': cps(head), 'cte_comment': False}]}
                traces.append(tr)
                meta.append(text)
                ctx.evals()
                ctx.nontrivial((head, pre, cont, casing, spacing))
    return traces, meta


def pair_traces(ctx, rng, quick, start_id):
    """every DML/DDL word of the keyword tables (type read off the working tree's lexer, as KeywordTable.tla does)
    x every word of the tables as the FOLLOWING word: "the answer ignores everything after the leading keyword"."""
    import sqlparse
    from sqlparse import lexer, tokens as T
    from .. import extract
    words = sorted(extract.all_keyword_words())
    heads = []
    for w in words:
        toks = list(lexer.tokenize(w))
        if len(toks) == 1 and (toks[0][0] in T.Keyword.DML or toks[0][0] in T.Keyword.DDL):
            heads.append(w)
    ctx.cov['dml_ddl_words'] = len(heads)
    followers = words + ['foo', 't1', '1', "'s'", '(1)', '*', '"q"', '@v', '#t']
    traces, meta = [], []
    for h in heads:
        for f in followers:
            if (h.upper(), f.upper()) in (('CREATE', 'OR'),):
                pass
            hs = recase(h, rng.randrange(4), rng)
            text = rng.choice(PREFIX) + hs + rng.choice([' ', '\n', '  ', '\t']) + recase(f, rng.randrange(3), rng) + rng.choice(CONT)
            toks = [(tt, v) for tt, v in lexer.tokenize(text) if tt not in T.Whitespace and tt not in T.Comment]
            # the pair may be ONE keyword token by the tables' own multi-word rules (none for DML/DDL heads but CREATE OR REPLACE)
            exp = h.upper()
            try:
                st = sqlparse.parse(text)
                got = st[0].get_type() if st else 'UNKNOWN'
                exc = ''
            except Exception as e:  # noqa
                got, exc = '', type(e).__name__
            tr = {'id': start_id + len(traces), 'text': cps(text), 'exc': exc, 'ids': [], 'wheres': [], 'lists': [], 'fns': [],
                  'cases': [], 'cmps': [], 'tls': [], 'pars': [], 'stmts': [{'exp': exp, 'got': got, 'lead': cps(h), 'cte_comment': False}]}
            traces.append(tr)
            meta.append(text)
            ctx.evals()
            ctx.nontrivial((h, f))
    return traces, meta


_extra_heads = extra_traces


def extra_traces(ctx, rng, quick, start_id):     # noqa: F811
    t1, m1 = _extra_heads(ctx, rng, quick, start_id)
    t2, m2 = pair_traces(ctx, rng, quick, start_id + len(t1))
    return t1 + t2, m1 + m2


RULE = ('get_type() of every statement of SqlGen.tla derivations (annotated type) and of a product of leading keywords x letter casings x inner '
        'whitespace of multi-word keywords x whitespace/comment/hint prefixes x continuations; TLC compares with the expected upper-cased keyword '
        '(single blanks), the DML after the CTE list, or UNKNOWN; plus every DML/DDL word of the keyword tables x every table word as the following word; non-trivial = distinct (keyword, casing, prefix, continuation)')


def run(ctx):
    c12.PID = PID
    try:
        return c12.run(ctx, modes=('cmt', 'ws', 'blank'))
    finally:
        c12.PID = 'C12'


replay = c12.replay
