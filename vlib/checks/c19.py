"""C19 - all input forms and front ends give the same result."""
import io
import os
import random
import sys

from .. import tlc
from ..core import MachineryError, WORK, digest
from ..project import text_of

LEVEL = 'model_checking'

POOL = {
    'ascii': ["select a, b from t where x = 'y'; select 2", "update t set a = 1 -- c\nwhere b = 2"],
    'latin1': ["select 'caf\xe9', \xfc from t\xe4ble; select '\xd7'", "select * from fo\xf6 where bar = '\xe9\xe8'"],
    'bmp': ["select '\u0416\u0443\u043a', \u4e1a\u8005 from \u540d\u79f0 where a = '\u20ac'; select 1"],
    'astral': ["select '\U0001f600', a from t; select '\U00010348'"],
    'ascii_backslash': ["select 'a\\nb', '\\x41', '\\\\' from t where r = 'c:\\temp'; select 2"],
    'latin1_backslash': ["select 'caf\xe9\\n', '\\x41\xfc' from t where p = 'c:\\t\xe4'; select '\\u00e9'"],
    'bmp_backslash': ["select '\u0416\\n\u4e1a', '\\t' from t; select 1"],
}


def result_of(api, arg, encoding=None):
    import sqlparse
    if api == 'parse':
        return [(type(s).__name__, s.get_type(), text_of(s)) for s in sqlparse.parse(arg, encoding)]
    if api == 'parsestream':
        return [(type(s).__name__, s.get_type(), text_of(s)) for s in sqlparse.parsestream(arg, encoding)]
    if api == 'split':
        return sqlparse.split(arg, encoding)
    return sqlparse.format(arg, encoding=encoding, reindent=True, keyword_case='upper')


def realise(form, text, enc):
    """-> (argument, encoding keyword)"""
    if form == 'str':
        return text, None
    if form == 'stream':
        return io.StringIO(text), None
    if form == 'bytes_enc':
        return text.encode(enc), enc
    if form == 'bytes_utf8':
        return text.encode('utf-8'), None
    if form == 'bytes_raw':
        b = text.encode('latin-1')
        try:
            b.decode('utf-8')
            return None, None          # happens to be valid UTF-8: not this case
        except UnicodeDecodeError:
            return b, None
    raise MachineryError(form)


def cli_case(c, text, workdir, n):
    """run sqlparse.cli.main in-process with byte-backed channels; returns (rc, produced text or None)"""
    import sqlparse
    from sqlparse import cli
    enc = c['enc']
    try:
        data = text.encode(enc)
    except UnicodeEncodeError:
        return None
    inpath = os.path.join(workdir, 'in_%d.sql' % n)
    outpath = os.path.join(workdir, 'out_%d.sql' % n)
    argv = []
    old = (sys.stdin, sys.stdout, sys.stderr)
    stdin_b = io.BytesIO(data)
    stdout_b = io.BytesIO()
    try:
        if c['inp'] == 'file':
            with open(inpath, 'wb') as f:
                f.write(data)
            argv.append(inpath)
        else:
            argv.append('-')
            sys.stdin = io.TextIOWrapper(stdin_b, encoding='ascii')    # the CLI must re-wrap the buffer with --encoding
        sys.stdout = io.TextIOWrapper(stdout_b, encoding=enc, newline='')
        sys.stderr = io.StringIO()
        argv += list(c['argv']) + ['--encoding', enc]
        if c['out'] == 'samefile' and c['inp'] == 'file':
            outpath = inpath                 # format a file in place: the input is read before the output is opened
        if c['out'] in ('outfile', 'samefile'):
            argv += ['-o', outpath]
        try:
            rc = cli.main(argv)
        except SystemExit as e:
            rc = 'exit%s' % e.code
        except Exception as e:  # noqa  (an exception escaping main is itself a difference from format())
            rc = 'exception:%s' % type(e).__name__
        sys.stdout.flush()
        try:
            if c['out'] in ('outfile', 'samefile'):
                got = open(outpath, 'rb').read().decode(enc) if os.path.exists(outpath) else None
            else:
                got = stdout_b.getvalue().decode(enc)
        except UnicodeDecodeError:
            got = '<<output is not valid %s>>' % enc
    finally:
        sys.stdin, sys.stdout, sys.stderr = old
        for p in (inpath, outpath):
            if os.path.exists(p):
                os.remove(p)
    return rc, got


def cli_expected(c, text):
    import sqlparse
    o = c['opts']
    kw = {}
    for k in ('strip_comments', 'reindent', 'indent_after_first', 'indent_columns', 'reindent_aligned',
              'use_space_around_operators', 'comma_first', 'compact'):
        kw[k] = bool(o[k])
    for k in ('keyword_case', 'identifier_case', 'output_format'):
        if o[k] != 'none':
            kw[k] = o[k]
    kw['indent_width'] = int(o['indent_width'])
    kw['wrap_after'] = int(o['wrap_after'])
    # text read from a file / stdin goes through universal newlines
    t = text.replace('\r\n', '\n').replace('\r', '\n')
    return sqlparse.format(t, **kw)


def run(ctx):
    quick = ctx.tier == 'quick'
    rng = random.Random(ctx.seed)
    from sqlparse.exceptions import SQLParseError
    # ---- Part A: decode decision tree ---------------------------------------------
    cfg = 'SPECIFICATION Spec\nCONSTANTS\n Mode = "decode"\n Emit = TRUE\nINVARIANT DecodeIsIdentity\nINVARIANT PrintDone\n'
    r = tlc.run(ctx.workdir, 'Frontends', cfg, workers=1, label='Frontends_decode', coverage=False)
    ctx.add_tlc(r, 'Frontends.tla decode cases (form x content x encoding x api)')
    cases = r.printed
    if len(cases) < 50:
        raise MachineryError('too few decode cases')
    for c in cases:
        for text in POOL[c['content']]:
            arg, kw = realise(c['form'], text, c['enc'])
            if arg is None:
                continue
            ctx.evals()
            try:
                ref = result_of(c['api'], text)
                got = result_of(c['api'], arg, kw)
            except Exception as e:  # noqa
                ctx.violation({'case': c, 'text': text, 'tags': ['frontend:exception', type(e).__name__], 'clause': 'exception'},
                              '%s(%s %s/%s) raised %s for %r' % (c['api'], c['form'], c['content'], c['enc'], type(e).__name__, text[:50]))
                continue
            ctx.nontrivial((c['form'], c['content'], c['enc'], c['api'], text))
            if got != ref:
                tags = ['frontend:' + c['form'], 'content:' + c['content']]
                ctx.violation({'case': c, 'text': text, 'tags': tags, 'clause': 'form-result-differs-from-str-result',
                               'got': str(got)[:300], 'ref': str(ref)[:300]},
                              '%s on %s (%s, %s) differs from the result for the same text as str: %r' % (c['api'], c['form'], c['content'], c['enc'], text[:60]))
    ctx.sample(cases[0])
    # parsestream == parse on every pool text
    import sqlparse
    for texts in POOL.values():
        for t in texts:
            if result_of('parse', t) != result_of('parsestream', io.StringIO(t)):
                ctx.violation({'text': t, 'tags': ['parsestream'], 'clause': 'parsestream-differs-from-parse'}, 'parsestream differs from parse for %r' % t)
    # ---- Part B: CLI ------------------------------------------------------------------
    cfg = 'SPECIFICATION Spec\nCONSTANTS\n Mode = "cli"\n Emit = TRUE\nINVARIANT BoolQuirk\nINVARIANT PrintDone\n'
    r = tlc.run(ctx.workdir, 'Frontends', cfg, workers=1, label='Frontends_cli', coverage=False,
                simulate='num=%d' % (1500 if quick else 20000), depth=14, seed=ctx.seed + 5, timeout=900)
    ctx.add_tlc(r, 'Frontends.tla CLI cases (simulate)')
    cli_cases = r.printed
    wd = os.path.join(ctx.workdir, 'cli')
    os.makedirs(wd, exist_ok=True)
    texts = POOL['ascii'] + POOL['latin1'] + POOL['bmp'] + ["select a,b from t where x=1 /* c */;\r\nselect case when a then 1 end"]
    # line ends of every style INSIDE quoted regions and comments: a text channel translates them (universal newlines)
    # before format() sees the text, on every input channel alike
    texts += ["select 'first\r\nsecond' as \"a\rb\", `c\r\nd` from t /* x\r\ny */ where z = 'p\rq';\rselect 2 -- e\r\n",
              "insert into t values ('l1\r\nl2\r\n', $$b\r\nc$$);\r\n"]
    n = 0
    for c in cli_cases:
        text = rng.choice(texts)
        res = cli_case(c, text, wd, n)
        n += 1
        if res is None:
            continue
        rc, got = res
        ctx.evals()
        ctx.nontrivial((tuple(c['argv']), c['inp'], c['out'], c['enc']))
        try:
            exp = cli_expected(c, text)
            exp_rc = 0
        except SQLParseError:
            exp, exp_rc = None, 1
        if exp_rc == 1:
            if rc != 1:
                ctx.violation({'case': c, 'text': text, 'tags': ['cli:invalid-options'], 'clause': 'cli-accepts-what-format-rejects'},
                              'sqlformat %s returned %s although format() rejects the options' % (c['argv'], rc))
            continue
        if rc != 0 or got != exp:
            ctx.violation({'case': c, 'text': text, 'rc': rc, 'got': got, 'exp': exp, 'tags': ['cli:' + c['inp'] + '->' + c['out'], 'enc:' + c['enc']],
                           'clause': 'cli-output-differs-from-format'},
                          'sqlformat %s (%s -> %s, %s): rc=%s, output differs from format(): %r vs %r'
                          % (c['argv'], c['inp'], c['out'], c['enc'], rc, (got or '')[:80], (exp or '')[:80]))
    if cli_cases:
        ctx.sample(cli_cases[0])
    ctx.cov['decode_cases'] = len(cases)
    ctx.cov['cli_cases'] = len(cli_cases)
    ctx.traces(len(cases) + len(cli_cases))
    ctx.assumptions += ["Python's codecs are trusted", 'file/stdin input passes universal-newline translation before format() sees it']
    return ctx.finish(
        rule='every meaningful (form, content class, encoding, api) case of Frontends.tla realised with pool texts (Latin-1, Cyrillic/CJK, astral, backslash '
             'sequences) and compared with the str result; TLC-simulated CLI cases (flag subsets x value flags x stdin/file x stdout/outfile x encoding) run through '
             'cli.main in-process and compared with format() under the option set the model computes; non-trivial = distinct case')


def replay(rec):
    print('replay: cases are regenerated by the check; stored case: %s' % str(rec['case'])[:500])
    return 0
