"""C20 - results depend only on input and options: no call history, no thread effects."""
import random
import sys

from .. import histrun, tlc, tracecheck, sched
from ..core import MachineryError, digest, REPO  # noqa

LEVEL = 'model_checking'

INIT_CFG = """SPECIFICATION Spec
CONSTANTS
  Threads = {%s}
  NDicts = %d
  UseLock = %s
  PublishEarly = %s
  MayFail = %s
INVARIANT UseSeesComplete
INVARIANT AtMostOneCreate
INVARIANT MutualExclusion
INVARIANT PublishedIsComplete
"""

REF = "select a, b as c from t where x = 1 order by a; insert into t values (1, 'x')"


def battery():
    import sqlparse
    from ..shaperec import shape
    out = []
    out.append(shape(REF))
    out.append(sqlparse.split(REF))
    out.append(sqlparse.format(REF, reindent=True, keyword_case='upper'))
    out.append(sqlparse.format(REF, output_format='python'))
    out.append(sqlparse.format(REF, output_format='php', reindent_aligned=True))
    out.append(sqlparse.format('select 1 -- c\n', strip_comments=True, identifier_case='upper'))
    out.append(shape('select foo, zz9 from bar where xselect = 1'))
    return digest(out)


def do_op(op, keep, rng=None, pool=None):
    """execute one history operation; exceptions of the expected kind are part of the operation"""
    import sqlparse
    from sqlparse import lexer, keywords, tokens
    from sqlparse.exceptions import SQLParseError
    if op == 'parse':
        sqlparse.parse('select * from foo where a in (select 1); update t set x = 2')
    elif op == 'split':
        sqlparse.split('create function f() begin a; end; select 1; select 2')
    elif op == 'format_reindent':
        sqlparse.format('select a, b from t join u on t.x = u.y where c = 1', reindent=True, comma_first=True)
    elif op == 'format_python':
        sqlparse.format('select 1; select 2; select 3', output_format='python')
    elif op == 'format_aligned':
        sqlparse.format('select a, case when b then 1 else 2 end from t where c = 1 group by a', reindent_aligned=True)
    elif op == 'format_case':
        sqlparse.format("select 'abcdefghij' from T", keyword_case='upper', identifier_case='lower', truncate_strings=3)
    elif op == 'bad_option':
        try:
            sqlparse.format('select 1', keyword_case='camel')
        except SQLParseError:
            pass
    elif op == 'type_error':
        try:
            sqlparse.parse(42)
        except TypeError:
            pass
    elif op == 'abandon_keep':
        g = sqlparse.parsestream('select 1; select 2; select 3; select 4')
        next(g)
        keep.append(g)
    elif op == 'abandon_drop':
        g = sqlparse.parsestream('select 1; select 2; select 3')
        next(g)
        del g
    elif op == 'recursion_error':
        old = sys.getrecursionlimit()
        try:
            sys.setrecursionlimit(120)
            try:
                sqlparse.parse('(' * 300 + ')' * 300)
            except SQLParseError:
                pass
        finally:
            sys.setrecursionlimit(old)
    elif op == 'recursion_error_mid':
        old = sys.getrecursionlimit()
        try:
            sys.setrecursionlimit(120)
            try:
                sqlparse.parse('select ' + '(' * 300 + ')' * 300 + '; select 2; select 3')
            except SQLParseError:
                pass
        finally:
            sys.setrecursionlimit(old)
    elif op == 'mutate_result':
        from sqlparse import filters as _f, sql as _sql
        text = rng.choice(pool[:12])
        try:
            for st in sqlparse.parse(text):
                _f.ReindentFilter().process(st)
                st.insert_before(0, _sql.Token(tokens.Comment.Single, '-- edited\n'))
                for t in list(st.flatten())[:3]:
                    t.value = t.value.upper()
        except SQLParseError:
            pass
    elif op == 'bytes_nonutf8':
        sqlparse.parse(b"select '\xe9t\xe9', \xff from t")
        sqlparse.format(b'select caf\xe9 from t', reindent=True)
    elif op == 'interleave_streams':
        a, b = rng.choice(pool), rng.choice(pool)
        try:
            for _x, _y in zip(sqlparse.parsestream(a + '; select 1; select 2'), sqlparse.parsestream(b + '; select 3')):
                pass
        except SQLParseError:
            pass
    elif op == 'many_words':
        sqlparse.split(' '.join('w%d' % i for i in range(70000)))
    elif op.startswith('pool_'):
        histrun.pool_call(op, rng.choice(pool))
    elif op == 'parse_junk':
        try:
            sqlparse.parse(") end if ( case 'x \x00 [ ;; go")
        except SQLParseError:
            pass
    elif op == 'reconfigure':
        lx = lexer.Lexer.get_default_instance()
        lx.clear()
        lx.set_SQL_REGEX([(r'\w+', tokens.Name), (r'\s+', tokens.Whitespace)])
        lx.add_keywords({'FOO': tokens.Keyword})
    elif op == 'add_keywords':
        # additional dictionary on top of the current configuration (no clear() first)
        lexer.Lexer.get_default_instance().add_keywords({'ZZ9': tokens.Keyword, 'FOO': tokens.Keyword.DML, 'BAR': tokens.Keyword})
    elif op == 'clear':
        lexer.Lexer.get_default_instance().clear()
    elif op == 'default_init':
        lexer.Lexer.get_default_instance().default_initialization()
    else:
        raise MachineryError('unknown op ' + op)


_WORK = None


def _call_work(k, n):
    return _WORK(k, n)


def histories(ctx, quick):
    cfg = 'SPECIFICATION Spec\nCONSTANTS\n MaxLen = %d\n Emit = TRUE\nINVARIANT RestoredByDefaultInit\nINVARIANT PrintDone\n' % 2      # 28 operations: all 812 histories up to length 2; longer ones are simulated
    res = tlc.run(ctx.workdir, 'ApiHistory', cfg, workers=1, label='ApiHistory', coverage=False, timeout=900)
    ctx.add_tlc(res, 'ApiHistory exhaustive len<=2')
    hs = [p['hist'] for p in res.printed]
    cfg = 'SPECIFICATION Spec\nCONSTANTS\n MaxLen = %d\n Emit = TRUE\nINVARIANT PrintDone\n' % (6 if quick else 8)
    res = tlc.run(ctx.workdir, 'ApiHistory', cfg, workers=1, label='ApiHistory_sim', coverage=False,
                  simulate='num=%d' % (150 if quick else 1500), depth=10, seed=ctx.seed + 1)
    ctx.add_tlc(res, 'ApiHistory simulate len<=%d' % (6 if quick else 8))
    hs += [p['hist'] for p in res.printed]
    return hs


def run(ctx):
    quick = ctx.tier == 'quick'
    rng = random.Random(ctx.seed)
    # generated pool: SqlGen programs spelled with comments / hints / line breaks in the gaps; a third of them are
    # reference texts of the battery, all of them are what the pool_* operations of ApiHistory.tla call with
    from .. import sqlprog
    import json as _json
    import os as _os
    import subprocess as _sub
    progs = sqlprog.programs(ctx, 60 if quick else 400, 'C20_pool', fuel=11, maxout=50, seed=ctx.seed * 7 + 3)
    pool = []
    for p in progs:
        sp = sqlprog.spell(p, rng, gaps=rng.choice(['cmt', 'cmtx', 'ws']), tight=rng.random() < 0.3, tail=True)
        if sqlprog.lexes_as_intended(sp) and len(sp.text) < 400:
            pool.append(sp.text)
    pool += histrun.PROBES
    if len(pool) < 10:
        raise MachineryError('C20: generated pool too small')
    btexts = pool[:12 if quick else 40]
    ents = histrun.entries(btexts)
    pf = _os.path.join(ctx.workdir, 'pool.json')
    with open(pf, 'w') as f:
        _json.dump({'battery_texts': btexts}, f)
    env = dict(_os.environ, PYTHONPATH=REPO + _os.pathsep + _os.path.dirname(_os.path.dirname(_os.path.dirname(_os.path.abspath(__file__)))),
               PYTHONHASHSEED='0')
    pr = _sub.run([sys.executable, '-m', 'vlib.histrun', pf], stdout=_sub.PIPE, stderr=_sub.PIPE, text=True, env=env, timeout=600)
    if pr.returncode != 0:
        raise MachineryError('fresh-process battery failed: ' + pr.stderr[-400:])
    fresh = _json.loads(pr.stdout.strip().splitlines()[-1])
    ctx.cov['battery_entries'] = len(ents)
    ctx.cov['pool_texts'] = len(pool)

    from sqlparse.lexer import Lexer
    from .. import extract
    ndicts = len(extract.keyword_dicts())
    sched.NDICTS = ndicts
    # ---- M: schedules, design level ----------------------------------------
    for n, lock, early, fail in ((2, True, False, False), (3, True, False, False), (2, True, False, True), (2, False, False, False),
                                 (2, True, True, True)):
        ths = ', '.join('t%d' % i for i in range(1, n + 1))
        mutant = (not lock) or early
        r = tlc.run(ctx.workdir, 'LexerInit', INIT_CFG % (ths, 3 if (n == 3 or fail) else ndicts, 'TRUE' if lock else 'FALSE',
                                                         'TRUE' if early else 'FALSE', 'TRUE' if fail else 'FALSE'),
                    workers=8, label='LexerInit_%d_%s_%s_%s' % (n, lock, early, fail), allow_violation=mutant, timeout=600)
        ctx.add_tlc(r, 'LexerInit %d threads UseLock=%s PublishEarly=%s MayFail=%s' % (n, lock, early, fail))
        if not lock and not r.violated:
            raise MachineryError('vacuity guard: the lock-free skeleton does not violate UseSeesComplete')
        if early and not r.violated:
            raise MachineryError('vacuity guard: publishing the singleton before its initialisation does not violate PublishedIsComplete')
        if not mutant:
            for a in ('Create', 'AddK', 'Use', 'Publish') + (('InitFail', 'Retry') if fail else ()):
                if r.coverage.get(a, 0) == 0:
                    raise MachineryError('LexerInit action %s never taken' % a)
    ctx.notes.append('vacuity guard ok: PublishEarly=TRUE with a failing initialisation violates the invariants (the defect repaired in /repo)')
    ctx.notes.append('vacuity guard ok: UseLock=FALSE violates the invariants')
    # ---- C->S: real threads under controlled schedules ------------------------
    seq = [(str(tt), v) for tt, v in __import__('sqlparse').lexer.tokenize(sched.TEXT)]
    traces, meta = [], []

    def one(n, preempt, label):
        s = sched.Sched(n)
        hang = False
        try:
            ev = s.run(sched.nonpreemptive(preempt))
        except sched.Hang as e:
            ev = s.events
            hang = True
        tr = {'id': len(traces), 'nthreads': n, 'ndicts': ndicts, 'ev': sched.abstract_trace(ev, n),
              'ok': [s.results[t] == seq for t in range(n)], 'hang': hang}
        traces.append(tr)
        meta.append({'threads': n, 'preempt': {str(k): v for k, v in preempt.items()}, 'choices': getattr(s, 'choices', []),
                     'results': [r if isinstance(r, str) else 'tokens(%d)' % len(r) for r in s.results]})
        ctx.evals()
        if preempt:
            ctx.nontrivial((n, tuple(sorted(preempt.items()))))
        return ev
    base = one(2, {}, 'base')
    pts = sorted({max(0, p - 2 + d) for p in sched.change_points(base) for d in (-1, 0, 1)})
    # every single pre-emption of the first thread at a state change, both orders
    for k in pts:
        one(2, {k: 1}, 'p1')
    for k in pts:
        one(2, {0: 1, k: 0}, 'p1r')
    pairs = [(a, b) for a in pts for b in pts if a < b]
    for a, b in (rng.sample(pairs, min(len(pairs), 150 if quick else 2500))):
        one(2, {a: 1, b: 0}, 'p2')
    for k in (pts if not quick else pts[::3]):
        one(3, {k: 1, k + 3: 2}, 'p3')
    rej = tracecheck.validate(ctx, 'TraceLexerInit', traces, label='TraceLexerInit', min_chunk=40)
    if sched.OPAQUE:
        ctx.drift('the lexer keeps its dictionaries in another representation than a list: initialisation completeness is not observable, schedules judged on results only')
    drift = set(ctx.last_drift)
    if drift:
        ctx.drift('%d schedules show a change of the singleton by a thread that does not hold the lock (LexerInit.tla discipline)' % len(drift))
        ctx.cov['drift'] = len(drift)
    for tid, (clause, step) in sorted(rej.items()):
        ctx.violation({'schedule': meta[tid], 'clause': clause, 'step': step, 'tags': ['sched:' + clause]},
                      'schedule %s: %s at abstract step %d (results %s)' % (meta[tid]['preempt'], clause, step, meta[tid]['results']))
    for m in meta[1:3]:
        ctx.sample(m)
    # ---- concurrent parse / split / format calls on an initialised lexer -------------------
    import sqlparse as _sp
    from ..shaperec import shape as _shape
    CALLS = [lambda: _sp.format(REF, reindent=True, keyword_case='upper'),
             lambda: _sp.format('select 1; select 2; select 3', output_format='python'),
             lambda: _shape('select a from t where b in (select 1) -- c\n; select f(x) over (partition by y)'),
             lambda: _sp.split('create function f() begin a; end; select 1'),
             lambda: _sp.format('select a, b from t; select c from u where d = 1', reindent_aligned=True, strip_comments=True),
             lambda: _sp.format('select aaa, (select bb, cc from u where k = 1) from tt; select 2', output_format='php', reindent=True),
             lambda: _sp.format('insert into t (a, b) values (1, 2), (3, 4); select xx, yy from zzzz join w on a = b', reindent=True, comma_first=True)]
    expected = [c() for c in CALLS]
    nconc = 0
    def conc(idx, chooser, label):
        s2 = sched.Sched(len(idx), jobs=[CALLS[i] for i in idx], fresh=False)
        try:
            s2.run(chooser)
            got = s2.results
        except sched.Hang:
            got = ['HANG'] * len(idx)
        ctx.evals()
        ctx.nontrivial(('conc', tuple(idx), label))
        for t in range(len(idx)):
            if got[t] != expected[idx[t]]:
                ctx.violation({'calls': idx, 'choices': getattr(s2, 'choices', [])[:400], 'thread': t, 'tags': ['concurrent-calls'],
                               'clause': 'concurrent-result-differs-from-sequential'},
                              'thread %d of concurrent calls %s (%s) got %r instead of %r' % (t, idx, label, str(got[t])[:120], str(expected[idx[t]])[:120]))
                return s2.events, False
        return s2.events, True
    import time
    t_conc = time.time()
    pairs = [(i, j) for i in range(len(CALLS)) for j in range(len(CALLS))]
    if quick:
        pairs = [p for p in pairs if p[0] in (0, 1, 5) and p[1] in (0, 1, 6)]
    if not quick:
        rng.shuffle(pairs)           # a time budget ends this part: no fixed pair is always the one left out
    for (i, j) in pairs:
        # every single pre-emption of the first call by the whole second call
        evs, ok = conc([i, j], sched.nonpreemptive({}), 'seq')
        nconc += 1
        # pre-emption points: for every distinct code location thread 0 stops at, its first and last
        # occurrence (plus a random one): covers every window between two gated lines
        occ = {}
        for step, e in enumerate(evs[2:]):       # events 0,1 are the initial gates; event n+2 is produced by controller step n
            if e['t'] == 0:
                occ.setdefault((e['f'], e['w']), []).append(step + 1)
        ks = set()
        for loc, lst in occ.items():
            ks.update([lst[0], lst[-1], rng.choice(lst)])
            if not quick:
                ks.update(lst[:3])
        ks = sorted(k for k in ks if k >= 1)
        for k in ks:
            if not ok:
                break
            if time.time() - t_conc > (300 if quick else 2400):       # wall-clock budget of this part: the rest is not explored
                ctx.cov['concurrent_schedules_cut_by_time_budget'] = True
                break
            _, ok = conc([i, j], sched.nonpreemptive({k: 1}), 'preempt@%d' % k)
            nconc += 1
    for rnd in range(10 if quick else 300):
        idx = [rng.randrange(len(CALLS)) for _ in range(3)]
        conc(idx, sched.random_chooser(random.Random(ctx.seed * 1000 + rnd), switch=0.4), 'random%d' % rnd)
        nconc += 1
    ctx.cov['concurrent_call_schedules'] = nconc
    # ---- histories -----------------------------------------------------------------
    def differs(hist_ops, order=None, sink=None):
        # the battery is itself a history: its entries are evaluated in a random order (the first ones meet the state
        # the history left behind) and each is compared with its own first-call-of-a-process answer
        order = list(range(len(ents))) if order is None else order
        got = histrun.evaluate([ents[i] for i in order])
        bad = [order[k] for k in range(len(order)) if got[k] != fresh[order[k]]]
        if bad:
            kind, t, o = ents[bad[0]]
            v = ({'history': hist_ops, 'tags': ['history'], 'clause': 'result-depends-on-history',
                  'reference_call': [kind, t, o], 'differing_entries': len(bad)},
                 'after history %s the reference call %s(%r, %s) (and %d more) gives another result than in a fresh process'
                 % (hist_ops, kind, t[:80], o, len(bad) - 1))
            if sink is None:
                ctx.violation(*v)
            else:
                sink.append(v)
        return bool(bad)
    # the checking process has a history already (schedules, concurrent calls): it must not show either
    differs(['<the schedule and concurrency parts of this check>'])
    pristine = battery()
    hs = histories(ctx, quick)

    def work(k, nworkers):
        """histories k, k+n, k+2n, ... replayed one after the other in one (forked) process"""
        out = []
        for nh in range(k, len(hs), nworkers):
            h = hs[nh]
            keep = []
            hrng = random.Random(ctx.seed * 100003 + nh)
            try:
                for i, step in enumerate(h):
                    do_op(step['op'], keep, hrng, pool)
                    if step['cfg'] == 'default':
                        b = battery()
                        if b != pristine:
                            out.append(({'history': [x['op'] for x in h[:i + 1]], 'tags': ['history'], 'clause': 'result-depends-on-history'},
                                        'after history %s the reference calls give other results than in a fresh process' % [x['op'] for x in h[:i + 1]]))
                            break
                        if i == len(h) - 1 or (not quick and hrng.random() < 0.3):
                            order = hrng.sample(range(len(ents)), min(len(ents), 20 if quick else 60))
                            if differs([x['op'] for x in h[:i + 1]], order, out):
                                break
            except Exception as e:  # noqa
                out.append(({'history': [x['op'] for x in h], 'tags': ['history-exception', type(e).__name__], 'clause': 'history-raised'},
                            'history %s raised %s' % ([x['op'] for x in h], type(e).__name__)))
            finally:
                __import__('sqlparse').lexer.Lexer.get_default_instance().default_initialization()
                del keep
        return out
    import multiprocessing as _mp
    global _WORK
    _WORK = work
    NW = 12
    with _mp.get_context('fork').Pool(NW) as mpool:
        results = mpool.starmap(_call_work, [(k, NW) for k in range(NW)])
    for out in results:
        for case, what in out:
            ctx.violation(case, what)
    nh = len(hs)
    for h in hs:
        ctx.evals()
        ctx.nontrivial(tuple(x['op'] for x in h))
    ctx.sample({'history': [x['op'] for x in hs[len(hs) // 2]]})
    ctx.cov['histories'] = nh
    ctx.cov['schedules'] = len(traces)
    ctx.assumptions += ['CPython line-event granularity for pre-emption points (one thread runs at a time; GIL-free races inside a bytecode are not explored)']
    return ctx.finish(
        rule='schedules: every single pre-emption (both orders) at each abstract state change of the 2-thread first-use run, sampled pairs of '
             'pre-emptions, 3-thread runs; each recorded as a trace of projected singleton states and validated by TLC (TraceLexerInit.tla); histories: '
             'all operation sequences of ApiHistory.tla up to the bound + simulated longer ones (operations include calls drawn from a pool of generated SqlGen programs with '
             'comments), each replayed and followed by reference calls in random order, every answer compared with the answer the same call gives as the FIRST call of a fresh process; '
             'non-trivial = distinct schedule with a pre-emption or distinct history')


def replay(rec):
    print('replay: schedules/histories are regenerated by the check; stored case: %s' % rec['case'])
    return 0
