"""Harness core: check context, evidence writer, known-findings matcher,
violation / replay files, exit-code discipline.

Exit codes: 0 property held on everything explored (KNOWN-FINDING lines allowed),
            1 violation (a line `VIOLATION property=<id> replay=<path>` was printed),
            2 machinery failure (TLC crashed, vacuous run, schema failure ...).
"""
import hashlib
import json
import os
import sys
import time
import traceback

VERIF = os.path.dirname(os.path.dirname(os.path.abspath(__file__)))
REPO = os.environ.get('VERIF_REPO', '/repo')
WORK = os.path.join(VERIF, '.work')
EVID = os.environ.get('VERIF_EVIDENCE_DIR') or os.path.join(VERIF, 'evidence')     # seedtest redirects it to a scratch directory
REPLAYS = os.path.join(EVID, 'replays')
SPEC = os.path.join(VERIF, 'spec')

if REPO not in sys.path:
    sys.path.insert(0, REPO)


class MachineryError(Exception):
    pass


def cps(s):
    """text -> list of code points (JSON-safe for surrogates / NUL)."""
    return [ord(c) for c in s]


def uncps(l):
    return ''.join(chr(c) for c in l)


def digest(obj):
    return hashlib.sha1(json.dumps(obj, sort_keys=True, default=str)
                        .encode()).hexdigest()[:12]


def load_known():
    p = os.path.join(VERIF, 'known_findings.json')
    if not os.path.exists(p):
        return []
    with open(p) as f:
        return json.load(f)['findings']


class Ctx:
    """One run of one check."""

    def __init__(self, pid, tier, level, seed=None):
        self.pid = pid
        self.tier = tier
        self.level = level
        self.seed = int(seed if seed is not None
                        else os.environ.get('VERIF_SEED', '0') or 0)
        self.t0 = time.time()
        self.cov = {
            'evaluations': 0, 'distinct_nontrivial': 0, 'rule': '',
            'samples': [], 'states': 0, 'transitions': 0,
            'traces_validated_against_impl': 0,
            'tlc_runs': [], 'drift': 0, 'spec_cex_unrealised': 0,
        }
        self._nontrivial = set()
        self.assumptions = []
        self.violations = []      # list of dicts
        self.known_hits = {}      # key -> count
        self.known = [k for k in load_known() if k['property'] == pid]
        self.notes = []
        os.makedirs(WORK, exist_ok=True)
        os.makedirs(EVID, exist_ok=True)
        self.workdir = os.path.join(WORK, '%s-%s-%d' % (pid, tier, os.getpid()))
        os.makedirs(self.workdir, exist_ok=True)

    # ---- counters -------------------------------------------------------
    def evals(self, n=1):
        self.cov['evaluations'] += n

    def nontrivial(self, key):
        self._nontrivial.add(key if isinstance(key, (str, int, tuple))
                             else digest(key))

    def sample(self, s, cap=8):
        if len(self.cov['samples']) < cap:
            self.cov['samples'].append(s)

    def add_tlc(self, res, label):
        self.cov['states'] += res.distinct
        self.cov['transitions'] += res.generated
        self.cov['tlc_runs'].append({
            'label': label, 'states_generated': res.generated,
            'distinct': res.distinct, 'wall_s': round(res.wall, 2),
            'mode': res.mode, 'actions': res.coverage})

    def traces(self, n):
        self.cov['traces_validated_against_impl'] += n

    def drift(self, msg):
        self.cov['drift'] += 1
        if self.cov['drift'] <= 5:
            print('DRIFT property=%s %s' % (self.pid, msg))

    def unrealised(self, msg):
        self.cov['spec_cex_unrealised'] += 1
        if self.cov['spec_cex_unrealised'] <= 5:
            print('SPEC-CEX-UNREALISED property=%s %s' % (self.pid, msg))

    # ---- violations -----------------------------------------------------
    def match_known(self, case):
        """case: dict with free keys; a known finding matches if its `match`
        predicate (see vlib.known) accepts the case."""
        from . import known as K
        for k in self.known:
            if k.get('status') != 'known':
                continue
            if K.matches(k['match'], case):
                return k
        return None

    def violation(self, case, what):
        """Report a failing case (already reproduced on real code).
        `case` must contain everything needed for replay."""
        k = self.match_known(case)
        if k is not None:
            self.known_hits[k['key']] = self.known_hits.get(k['key'], 0) + 1
            return False
        rec = {'property': self.pid, 'what': what, 'case': case}
        # keep at most 20 replay files per run
        if len(self.violations) < 20:
            os.makedirs(REPLAYS, exist_ok=True)
            path = os.path.join(REPLAYS, '%s-%s.json' % (self.pid, digest(rec)))
            with open(path, 'w') as f:
                json.dump(rec, f, indent=1, default=str)
            rec['replay'] = path
            print('VIOLATION property=%s replay=%s' % (self.pid, path))
            print('  what: %s' % (what,))
        self.violations.append(rec)
        return True

    # ---- finish ---------------------------------------------------------
    def finish(self, rule, extra=None, exhaustive=None):
        self.cov['rule'] = rule
        sp = sys.modules.get('vlib.spell')
        if sp is not None:
            for lab, s_, sig in getattr(sp, '_checked', {}).get('__bad__', []):
                self.drift('pool spelling %r (label %s) lexes to kinds %s on this tree, not to its intended kind' % (s_, lab, sig))
        self.cov['distinct_nontrivial'] = len(self._nontrivial)
        if exhaustive is not None:
            self.cov['exhaustive'] = exhaustive
        if extra:
            self.cov.update(extra)
        for key, n in sorted(self.known_hits.items()):
            k = [x for x in self.known if x['key'] == key][0]
            print('KNOWN-FINDING: property=%s %s (%s; reproduced %d times)'
                  % (self.pid, k['what'], key, n))
        self.cov['known_findings_reproduced'] = dict(self.known_hits)
        ev = {
            'property_id': self.pid, 'tier': self.tier, 'seed': self.seed,
            'level': self.level, 'coverage': self.cov,
            'assumptions': self.assumptions,
            'wall_s': round(time.time() - self.t0, 2),
            'violations': len(self.violations),
        }
        if self.notes:
            ev['coverage']['notes'] = self.notes
        with open(os.path.join(EVID, self.pid + '.json'), 'w') as f:
            json.dump(ev, f, indent=1, default=str)
        # clean workdir
        import shutil
        if not os.environ.get('VERIF_KEEP'):
            shutil.rmtree(self.workdir, ignore_errors=True)
        print('%s %s: evaluations=%d nontrivial=%d states=%d traces=%d '
              'violations=%d known=%d wall=%.1fs'
              % (self.pid, self.tier, self.cov['evaluations'],
                 self.cov['distinct_nontrivial'], self.cov['states'],
                 self.cov['traces_validated_against_impl'],
                 len(self.violations), sum(self.known_hits.values()),
                 time.time() - self.t0))
        return 1 if self.violations else 0


def run_check(fn, pid, tier, level, argv=None):
    """Wrapper that maps exceptions to exit 2."""
    try:
        ctx = Ctx(pid, tier, level)
        rc = fn(ctx)
        sys.stdout.flush()
        return rc
    except MachineryError as e:
        print('MACHINERY-FAILURE property=%s %s' % (pid, e))
        traceback.print_exc()
        return 2
    except Exception as e:  # noqa
        print('MACHINERY-FAILURE property=%s unexpected %r' % (pid, e))
        traceback.print_exc()
        return 2
