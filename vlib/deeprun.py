"""Subprocess side of C15: run entry points on deeply nested input under a chosen
recursion limit; print one JSON line per case.  Usage: deeprun.py <limit> <json cases>"""
import json
import sys


def build(kind, d):
    if kind == 'parens':
        return 'select ' + '(' * d + '1' + ')' * d
    if kind == 'unclosed':
        return 'select ' + '(' * d + '1'
    if kind == 'brackets':
        return 'select x' + '[' * d + '1' + ']' * d
    if kind == 'case':
        return 'select ' + 'case when a then ' * d + '1' + ' end' * d
    if kind == 'calls':
        return 'select ' + 'f(' * d + '1' + ')' * d
    if kind == 'subqueries':
        return 'select * from (' * d + 'select 1' + ') x' * d
    if kind == 'begin':
        return 'begin ' * d + 'x;' + ' end' * d
    if kind == 'opchain':
        return 'select ' + '1 + ' * d + '1'
    if kind == 'list':
        return 'select ' + 'a, ' * d + 'b from t'
    if kind == 'mixed':
        return 'select ' + '(case when f([' * (d // 3) + '1' + ']) then 1 end)' * (d // 3)
    raise ValueError(kind)


def leaves_text(stmts):
    out = []
    for s in stmts:
        stack = [iter(s.tokens)]
        while stack:
            try:
                t = next(stack[-1])
            except StopIteration:
                stack.pop()
                continue
            if getattr(t, 'is_group', False):
                stack.append(iter(t.tokens))
            else:
                out.append(t.value)
    return ''.join(out)


def firstcall():
    """deeprun.py firstcall <limit> <frames> <repo>: the FIRST library call of the process is made `frames` deep
    under recursion limit `limit` (little or no headroom left); then an ordinary call with a generous limit"""
    limit, n = int(sys.argv[2]), int(sys.argv[3])
    sys.path.insert(0, sys.argv[4])
    import sqlparse
    from sqlparse.exceptions import SQLParseError

    def deep(k, f):
        return f() if k == 0 else deep(k - 1, f)
    out = {'kind': 'firstcall', 'depth': n, 'entry': 'parse', 'limit': limit, 'outcome': 'ok', 'roundtrip': True, 'later': 'ok'}
    sys.setrecursionlimit(limit)
    try:
        deep(n, lambda: sqlparse.parse('select 1'))
    except SQLParseError:
        out['outcome'] = 'SQLParseError'
    except RecursionError:
        out['outcome'] = 'ok'       # the CALLER's own frames overflowed before the library was entered: not the library's
    except BaseException as ex:  # noqa
        out['outcome'] = type(ex).__name__
    sys.setrecursionlimit(3000)
    try:
        toks = [(str(t.ttype), t.value) for t in sqlparse.parse('select 1')[0].flatten()]
        if toks != [('Token.Keyword.DML', 'select'), ('Token.Text.Whitespace', ' '), ('Token.Literal.Number.Integer', '1')]:
            out['later'] = 'differs'
    except BaseException as ex:  # noqa
        out['later'] = type(ex).__name__
    print('@@' + json.dumps(out), flush=True)


def firstformat():
    """deeprun.py firstformat <limit> <depth> <repo>: the first formatting call of the process works on input nested
    `depth` deep under recursion limit `limit` (whatever is initialised lazily at first use is initialised THERE, possibly
    half way when the stack runs out); afterwards ordinary statements are formatted with a generous limit and printed."""
    limit, d = int(sys.argv[2]), int(sys.argv[3])
    sys.path.insert(0, sys.argv[4])
    import sqlparse
    from sqlparse.exceptions import SQLParseError
    out = {'kind': 'firstformat', 'depth': d, 'entry': 'format_aligned', 'limit': limit, 'outcome': 'ok', 'roundtrip': True, 'later': 'ok'}
    deep = 'select (' * d + 'select a and b' + ')' * d
    sys.setrecursionlimit(limit)
    try:
        sqlparse.format(deep, reindent_aligned=True)
    except SQLParseError:
        out['outcome'] = 'SQLParseError'
    except RecursionError:
        out['outcome'] = 'RecursionError'
    except BaseException as ex:  # noqa
        out['outcome'] = type(ex).__name__
    sys.setrecursionlimit(3000)
    ref = 'select a from b join c on x = y where c and d or e group by e order by f; update t set a = 1 where b in (select 2 from u)'
    try:
        out['digest'] = [sqlparse.format(ref, reindent=True), sqlparse.format(ref, reindent_aligned=True),
                         sqlparse.format(ref, reindent=True, comma_first=True, keyword_case='upper')]
    except BaseException as ex:  # noqa
        out['later'] = type(ex).__name__
        out['digest'] = []
    print('@@' + json.dumps(out), flush=True)


def main():
    if sys.argv[1] == 'firstcall':
        return firstcall()
    if sys.argv[1] == 'firstformat':
        return firstformat()
    limit = int(sys.argv[1])
    cases = json.loads(sys.argv[2])
    sys.path.insert(0, sys.argv[3])
    import sqlparse
    from sqlparse.exceptions import SQLParseError
    ref = 'select a from b where c = 1; select 2'
    pristine = (sqlparse.split(ref), sqlparse.format(ref, reindent=True))
    for c in cases:
        text = build(c['kind'], c['depth'])
        out = {'kind': c['kind'], 'depth': c['depth'], 'entry': c['entry'], 'limit': limit, 'outcome': 'ok', 'roundtrip': True,
               'later': 'ok'}
        sys.setrecursionlimit(limit)
        try:
            e = c['entry']
            if e == 'parse':
                st = sqlparse.parse(text)
                sys.setrecursionlimit(100000)
                out['roundtrip'] = leaves_text(st).rstrip() == text.rstrip()
            elif e == 'parsestream':
                st = list(sqlparse.parsestream(text))
                sys.setrecursionlimit(100000)
                out['roundtrip'] = leaves_text(st).rstrip() == text.rstrip()
            elif e == 'split':
                sqlparse.split(text)
            elif e == 'split_semi':
                sqlparse.split(text, strip_semicolon=True)
            else:
                sqlparse.format(text, **c['opts'])
        except SQLParseError:
            out['outcome'] = 'SQLParseError'
        except BaseException as ex:  # noqa
            out['outcome'] = type(ex).__name__
        finally:
            pass
        # "a later call on ordinary input still works": first under the SAME recursion limit (what a process that set
        # its limit once does), then with a generous one
        for lim2 in (limit, 3000):
            sys.setrecursionlimit(lim2)
            try:
                if (sqlparse.split(ref), sqlparse.format(ref, reindent=True)) != pristine:
                    out['later'] = 'differs'
            except BaseException as ex:  # noqa
                out['later'] = type(ex).__name__
            finally:
                sys.setrecursionlimit(3000)
            if out['later'] != 'ok':
                break
        print('@@' + json.dumps(out), flush=True)


if __name__ == '__main__':
    main()
