"""Subprocess side of C15: run entry points on deeply nested input under a chosen
recursion limit; print one JSON line per case.  Usage: deeprun.py <limit> <json cases>"""
import json
import sys


def build(kind, d):
    if kind == 'parens':
        return 'select ' + '(' * d + '1' + ')' * d
    if kind == 'unclosed':
        return 'select ' + '(' * d + '1'
    if kind == 'brackets':
        return 'select x' + '[' * d + '1' + ']' * d
    if kind == 'case':
        return 'select ' + 'case when a then ' * d + '1' + ' end' * d
    if kind == 'calls':
        return 'select ' + 'f(' * d + '1' + ')' * d
    if kind == 'subqueries':
        return 'select * from (' * d + 'select 1' + ') x' * d
    if kind == 'begin':
        return 'begin ' * d + 'x;' + ' end' * d
    if kind == 'opchain':
        return 'select ' + '1 + ' * d + '1'
    if kind == 'list':
        return 'select ' + 'a, ' * d + 'b from t'
    if kind == 'mixed':
        return 'select ' + '(case when f([' * (d // 3) + '1' + ']) then 1 end)' * (d // 3)
    raise ValueError(kind)


def leaves_text(stmts):
    out = []
    for s in stmts:
        stack = [iter(s.tokens)]
        while stack:
            try:
                t = next(stack[-1])
            except StopIteration:
                stack.pop()
                continue
            if getattr(t, 'is_group', False):
                stack.append(iter(t.tokens))
            else:
                out.append(t.value)
    return ''.join(out)


def main():
    limit = int(sys.argv[1])
    cases = json.loads(sys.argv[2])
    sys.path.insert(0, sys.argv[3])
    import sqlparse
    from sqlparse.exceptions import SQLParseError
    ref = 'select a from b where c = 1; select 2'
    pristine = (sqlparse.split(ref), sqlparse.format(ref, reindent=True))
    for c in cases:
        text = build(c['kind'], c['depth'])
        out = {'kind': c['kind'], 'depth': c['depth'], 'entry': c['entry'], 'limit': limit, 'outcome': 'ok', 'roundtrip': True,
               'later': 'ok'}
        sys.setrecursionlimit(limit)
        try:
            e = c['entry']
            if e == 'parse':
                st = sqlparse.parse(text)
                sys.setrecursionlimit(100000)
                out['roundtrip'] = leaves_text(st).rstrip() == text.rstrip()
            elif e == 'parsestream':
                st = list(sqlparse.parsestream(text))
                sys.setrecursionlimit(100000)
                out['roundtrip'] = leaves_text(st).rstrip() == text.rstrip()
            elif e == 'split':
                sqlparse.split(text)
            elif e == 'split_semi':
                sqlparse.split(text, strip_semicolon=True)
            else:
                sqlparse.format(text, **c['opts'])
        except SQLParseError:
            out['outcome'] = 'SQLParseError'
        except BaseException as ex:  # noqa
            out['outcome'] = type(ex).__name__
        finally:
            sys.setrecursionlimit(3000)
        try:
            if (sqlparse.split(ref), sqlparse.format(ref, reindent=True)) != pristine:
                out['later'] = 'differs'
        except BaseException as ex:  # noqa
            out['later'] = type(ex).__name__
        print('@@' + json.dumps(out), flush=True)


if __name__ == '__main__':
    main()
