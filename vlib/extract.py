"""Constants extracted from the working tree (DESIGN §2.3)."""
import re
import sys

from .core import REPO  # noqa (puts /repo on sys.path)


def rule_table():
    """[(pattern, type-name or 'KEYWORD', minw, maxw)] from keywords.SQL_REGEX."""
    from sqlparse import keywords, tokens
    try:
        import re._parser as sre_parse
    except ImportError:  # < 3.11
        import sre_parse
    out = []
    for rx, tt in keywords.SQL_REGEX:
        p = sre_parse.parse(rx, re.IGNORECASE | re.UNICODE)
        lo, hi = p.getwidth()
        name = 'KEYWORD' if tt is keywords.PROCESS_AS_KEYWORD else str(tt)
        out.append((rx, name, int(lo), int(min(hi, 10 ** 6))))
    return out


def keyword_dicts():
    """dictionaries in registration order, as [(name, {WORD: typename})]: the add_keywords() calls that
    default_initialization() makes (observed through the public method, not through the lexer's private state)."""
    from sqlparse import keywords as K
    from sqlparse.lexer import Lexer
    seen = []

    class Spy(Lexer):
        def add_keywords(self, keywords):
            seen.append(keywords)
            return super().add_keywords(keywords)
    Spy().default_initialization()
    names = {id(getattr(K, n)): n for n in dir(K) if n.startswith('KEYWORDS')}
    return [(names.get(id(d), '?'), {k: str(v) for k, v in d.items()}) for d in seen]


def all_keyword_words():
    s = set()
    for _, d in keyword_dicts():
        s.update(d)
    return s
