"""Shared machinery of the formatting family (C06, C07, C08, C10)."""
import random

from . import tlc, tracecheck, formatrec, sqlprog
from .core import MachineryError, cps, uncps

BOOLS = ['strip_comments', 'use_space_around_operators', 'strip_whitespace', 'indent_columns', 'reindent',
         'reindent_aligned', 'indent_after_first', 'indent_tabs', 'comma_first', 'compact']
ORDER = ['keyword_case', 'identifier_case', 'output_format', 'strip_comments', 'use_space_around_operators',
         'strip_whitespace', 'truncate_strings', 'indent_columns', 'reindent', 'reindent_aligned',
         'indent_after_first', 'indent_tabs', 'indent_width', 'wrap_after', 'comma_first', 'compact']

LAYOUT_DOMAIN = {n: ['unset'] for n in ORDER}
for n in ['use_space_around_operators', 'strip_whitespace', 'indent_columns', 'reindent', 'reindent_aligned',
          'indent_after_first', 'indent_tabs', 'comma_first', 'compact']:
    LAYOUT_DOMAIN[n] = ['unset', 'true']
LAYOUT_DOMAIN['indent_width'] = ['unset', '1', '4']
LAYOUT_DOMAIN['wrap_after'] = ['unset', '1', '10', '40']

MC = """---- MODULE MC_Options ----
EXTENDS Options
Dom == %s
====
"""


def option_states(ctx, domain, label, simulate=None, seed=0):
    dom = '[' + ', '.join('%s |-> {%s}' % (k, ', '.join('"%s"' % v for v in vs)) for k, vs in domain.items()) + ']'
    cfg = ('SPECIFICATION Spec\nCONSTANTS\n Domain <- Dom\n Emit = TRUE\n'
           'INVARIANT LayoutStagesOnly\nINVARIANT StageOrder\nINVARIANT PrintDone\n')
    res = tlc.run(ctx.workdir, 'MC_Options', cfg, extra_modules={'MC_Options': MC % dom}, workers=1, label=label,
                  coverage=False, simulate=('num=%d' % simulate) if simulate else None,
                  depth=20 if simulate else None, seed=seed if simulate else None, timeout=900)
    ctx.add_tlc(res, '%s Options.tla %s' % (label, 'simulate %d' % simulate if simulate else 'exhaustive'))
    seen, out = set(), []
    for p in res.printed:
        k = tuple(sorted(p['opt'].items()))
        if k not in seen:
            seen.add(k)
            out.append(p)
    return out


def stage_list_agrees(pred):
    """S->C (i): real validate_options + build_filter_stack vs the model's prediction.
    returns None if equal, else a description"""
    from sqlparse import engine, formatter, filters
    from sqlparse.exceptions import SQLParseError
    kw = formatrec.concrete_options(pred['opt'])
    try:
        stack = engine.FilterStack()
        options = formatter.validate_options(dict(kw))
        stack = formatter.build_filter_stack(stack, options)
        stack.postprocess.append(filters.SerializerUnicode())
    except SQLParseError:
        return None if pred['bad'] else 'code rejects %s, model accepts' % (kw,)
    except Exception as e:  # noqa
        return 'validate/build raised %s for %s' % (type(e).__name__, kw)
    if pred['bad']:
        return 'model rejects option %s, code accepts %s' % (pred['bad'], kw)
    real = ([type(f).__name__ for f in stack.preprocess], [type(f).__name__ for f in stack.stmtprocess],
            [type(f).__name__ for f in stack.postprocess], bool(stack._grouping))
    want = ([s['f'] for s in pred['pre']], [s['f'] for s in pred['stmt']], [s['f'] for s in pred['post']],
            bool(pred['grouping']))
    if real != want:
        return 'stage list %s, model predicts %s for %s' % (real, want, kw)
    # parameters of the reindent filters
    for f in stack.stmtprocess:
        if type(f).__name__ == 'ReindentFilter':
            if (str(f.width) != pred['width'] or str(f.wrap_after) != pred['wrap']
                    or (f.char == '\t') != (pred['opt']['indent_tabs'] == 'true')):
                return 'ReindentFilter parameters differ from the model for %s' % (kw,)
    return None


def fmt_cfg(props):
    return tracecheck.CFG + 'CONSTANTS\n  Props = {%s}\n' % ', '.join('"%s"' % p for p in props)


def validate(ctx, traces, props, label):
    return tracecheck.validate(ctx, 'TraceFormat', traces, label=label, cfg=fmt_cfg(props), min_chunk=40)


def exception_site(text, kw):
    """innermost sqlparse frame of the exception format() raises (for attributing crash findings)"""
    import sqlparse
    import traceback
    try:
        sqlparse.format(text, **dict(kw))
    except Exception as e:  # noqa
        tb = traceback.extract_tb(e.__traceback__)
        for fr in reversed(tb):
            if '/sqlparse/' in fr.filename:
                return '%s:%s:%s' % (type(e).__name__, fr.filename.split('/sqlparse/')[-1], fr.name)
        return type(e).__name__
    return ''
