"""Recording executions of sqlparse.format(): per-stage significant-token
sequences (harness-side wrappers on the filter stack the public API builds),
final output, re-lexed output (trace kind `format`)."""
from .core import cps
from . import project

BOOL = {'unset': None, 'true': True, 'false': False, 'BAD': 'maybe'}
CONCRETE = {
    'keyword_case': {'unset': None, 'upper': 'upper', 'lower': 'lower', 'capitalize': 'capitalize', 'BAD': 'camel'},
    'identifier_case': {'unset': None, 'upper': 'upper', 'lower': 'lower', 'capitalize': 'capitalize', 'BAD': 'snake'},
    'output_format': {'unset': None, 'sql': 'sql', 'python': 'python', 'php': 'php', 'BAD': 'cobol'},
    'truncate_strings': {'unset': None, '5': 5, '20': 20, '2': 2, '3': 3, '1': 1, 'BAD': 'abc'},
    'truncate_char': {'unset': None, 'x': '…', 'empty': ''},
    'indent_width': {'unset': None, '1': 1, '2': 2, '4': 4, '0': 0, 'BAD': 'wide'},
    'wrap_after': {'unset': None, '0': 0, '1': 1, '10': 10, '40': 40, '-1': -1, 'BAD': 'far'},
}


# representatives of the abstract value BAD: an invalid value can be of any Python type
BAD_ENUM = ['camel', ['upper'], {'upper': 1}, bytearray(b'upper'), 7, ('upper',), b'upper', {'upper'}, 1.5]
BAD_BOOL = ['maybe', [], {}, 2, 'true', bytearray(b''), 0.5, (True,)]
BAD_INT = ['abc', [1], {}, '', b'x', float('inf'), float('nan'), -float('inf'), (2,), '1.5']


def concrete_options(opt, variant=0):
    """variant selects the representative of every BAD value (0: the string used everywhere else)"""
    kw = {}
    for i, (k, v) in enumerate(sorted(opt.items())):
        table = CONCRETE.get(k, BOOL)
        c = table[v]
        if v == 'BAD' and variant:
            pool = BAD_BOOL if table is BOOL else (BAD_INT if k in ('truncate_strings', 'indent_width', 'wrap_after') else BAD_ENUM)
            c = pool[(variant + i) % len(pool)]
        if v != 'unset':
            kw[k] = c
    return kw


def kind_of(tt, val):
    from sqlparse import tokens as T
    if tt in (T.Comment.Multiline.Hint, T.Comment.Single.Hint):
        return 'hint'
    if tt in T.Comment:
        return 'cmt'
    if tt in T.Keyword:
        return 'kw'
    if tt is T.String.Single:
        return 'str'
    if tt in T.Name or tt is T.String.Symbol:
        # what IdentifierCaseFilter.ttype = (T.Name, T.String.Symbol) selects with `in` on a tuple: exact members only
        return 'name' if tt in (T.Name, T.String.Symbol) else 'other'
    if tt in T.Operator:
        return 'op'
    return 'other'


def sig_of_pairs(pairs):
    """significant tokens; a multi-word keyword token (ORDER BY, NOT NULL, END IF) is entered word by word
    (`cont` marks the continuation words), so that `not /* c */ null` and `not null` compare equal"""
    from sqlparse import tokens as T
    out = []
    for tt, v in pairs:
        if tt in T.Whitespace or v == '':
            continue
        k = kind_of(tt, v)
        if k == 'kw' and len(v.split()) > 1:
            for i, w in enumerate(v.split()):
                out.append({'ty': str(tt), 'val': cps(w), 'k': k, 'cont': i > 0})
        else:
            out.append({'ty': str(tt), 'val': cps(v), 'k': k, 'cont': False})
    return out


def comment_edges(text):
    """for every comment token of the text, in order: is its Comment group the FIRST child of its token list (or preceded
    by `(`) in the grouped tree?  That is the one situation in which StripCommentsFilter leaves no blank behind (known
    finding C08-strip-comments-glues-neighbours); a glue anywhere else is a different failure."""
    import sqlparse
    from sqlparse import sql, tokens as T
    out = []
    try:
        stmts = sqlparse.parse(text)
    except Exception:  # noqa
        return None
    for st in stmts:
        stack = [st]
        order = []
        # iterative pre-order keeping document order
        todo = [(st, 0)]
        while todo:
            node, i = todo.pop()
            if i >= len(node.tokens):
                continue
            todo.append((node, i + 1))
            t = node.tokens[i]
            if isinstance(t, sql.Comment):
                prev = node.tokens[i - 1] if i > 0 else None
                edge = prev is None or (prev.ttype is T.Punctuation and prev.value == '(')
                n = sum(1 for x in t.flatten() if x.ttype in T.Comment)
                out += [edge] * n
            elif t.is_group:
                todo.append((t, 0))
            elif t.ttype in T.Comment:
                prev = node.tokens[i - 1] if i > 0 else None
                out.append(prev is None or (prev.ttype is T.Punctuation and prev.value == '('))
    return out


def lex_all(text):
    from sqlparse import lexer, tokens as T
    out = []
    for tt, v in lexer.tokenize(text):
        out.append({'ty': str(tt), 'val': cps(v), 'k': kind_of(tt, v),
                    'ws': tt in T.Whitespace, 'nl': tt in T.Newline or (tt in T.Whitespace and ('\n' in v or '\r' in v))})
    return out


def format_trace(tid, text, opt, second=True):
    """opt: abstract option record (see spec/Options.tla)"""
    import sqlparse
    from sqlparse import engine, formatter, filters, lexer, tokens as T
    from sqlparse.exceptions import SQLParseError
    kw = concrete_options(opt)
    tr = {'id': tid, 'opt': dict(opt), 'text': cps(text), 'exc': '', 'stmts': [], 'out': [], 'outtoks': [],
          'insig': sig_of_pairs(lexer.tokenize(text)), 'outsig': [], 'nin': -1, 'nout': -1, 'out2': [], 'out2sig': [], 'wrapped_ok': True,
          'stages': []}
    edges = comment_edges(text)
    ci = 0
    for e in tr['insig']:
        if e['k'] in ('cmt', 'hint'):
            e['edge'] = bool(edges[ci]) if edges is not None and ci < len(edges) else True
            ci += 1
        else:
            e['edge'] = False
    try:
        out = sqlparse.format(text, **dict(kw))
    except SQLParseError:
        tr['exc'] = 'SQLParseError'
        return tr
    except Exception as e:  # noqa
        tr['exc'] = type(e).__name__
        return tr
    tr['out'] = cps(out)
    tr['outtoks'] = lex_all(out)
    tr['outsig'] = sig_of_pairs(lexer.tokenize(out))
    try:
        tr['nin'] = len(sqlparse.split(text))
        tr['nout'] = len(sqlparse.split(out))
    except Exception:
        pass
    if second:
        try:
            o2 = sqlparse.format(out, **dict(kw))
            tr['out2'] = cps(o2)
            tr['out2sig'] = sig_of_pairs(lexer.tokenize(o2))
        except Exception as e:  # noqa
            tr['out2'] = cps('<<%s>>' % type(e).__name__)
    # instrumented run of the real sqlparse.format(): the stages of the stack it builds are wrapped
    # at the moment FilterStack.run is entered (no source hook; the patch is undone afterwards)
    orig_run = engine.FilterStack.run
    try:
        cur = {'stmt': None}
        depth = [0]
        events = []

        def wrap_stmt(f):
            orig = f.process
            name = type(f).__name__

            def process(stmt, *a, **k):
                if depth[0] > 0:          # recursive self-call of the filter: not a stage boundary
                    return orig(stmt, *a, **k)
                if cur['stmt'] is None:
                    cur['stmt'] = [{'f': 'initial', 'sig': sig_of_pairs((t.ttype, t.value) for t in project.leaves(stmt))}]
                    events.append(cur['stmt'])
                depth[0] += 1
                try:
                    r = orig(stmt, *a, **k)
                finally:
                    depth[0] -= 1
                cur['stmt'].append({'f': name, 'sig': sig_of_pairs((t.ttype, t.value) for t in project.leaves(stmt))})
                return r
            f.process = process

        def wrap_post(f, first):
            orig = f.process
            name = type(f).__name__

            def process(stmt):
                if first:
                    if cur['stmt'] is None:
                        cur['stmt'] = [{'f': 'initial', 'sig': sig_of_pairs((t.ttype, t.value) for t in project.leaves(stmt))}]
                        events.append(cur['stmt'])
                r = orig(stmt)
                if isinstance(r, str):
                    cur['stmt'].append({'f': name, 'sig': sig_of_pairs(lexer.tokenize(r)), 'text': cps(r)})
                    cur['stmt'] = None
                else:
                    cur['stmt'].append({'f': name, 'sig': sig_of_pairs((t.ttype, t.value) for t in project.leaves(r))})
                return r
            f.process = process

        def run(stack, sql, encoding=None):
            tr['stages'] = [type(f).__name__ for f in stack.preprocess] + ['|'] + \
                           [type(f).__name__ for f in stack.stmtprocess] + ['|'] + \
                           [type(f).__name__ for f in stack.postprocess]
            for f in stack.stmtprocess:
                wrap_stmt(f)
            for i, f in enumerate(stack.postprocess):
                wrap_post(f, i == 0)
            return orig_run(stack, sql, encoding)
        engine.FilterStack.run = run
        try:
            out_w = sqlparse.format(text, **dict(kw))
        finally:
            engine.FilterStack.run = orig_run
        tr['wrapped_ok'] = (out_w == out)
        if tr['wrapped_ok']:
            tr['stmts'] = [{'stages': ev} for ev in events]
    except Exception:
        tr['wrapped_ok'] = False
    finally:
        engine.FilterStack.run = orig_run
    return tr
