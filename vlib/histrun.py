"""Reference battery and generated call pool for the history half of C20.

The battery is a list of (call kind, text, options) whose results are digested one by one, so a difference names
the reference call.  `python -m vlib.histrun <pool.json>` evaluates it in a FRESH process: that is the pristine
answer every history is compared with (the checking process itself has a history by then)."""
import json
import sys

from .core import digest

PROBES = ['ts timestamp, m map, c character, z zone', 'select a/* c */from b', 'a+b', 'select 1/* one */+2 -- t\n|| 3',
          "select 'a' || 'b' /* x */ , 100 /* base */+ 1 from t", 'create table t (ts timestamp, c character(3), m map)',
          'select a # c\nfrom t; -- x\nselect 2',
          'select ' + '(' * 100 + 'case when a then 1 end' + ')' * 100 + ' from t',
          'select ' + '(' * 60 + '[x]' + ')' * 60, 'select newword%d, another_new_word from brand_new_table']

FAMILIES = {
    'pool_strip_cw': dict(strip_comments=True, strip_whitespace=True),
    'pool_ops_cw': dict(use_space_around_operators=True, strip_comments=True, strip_whitespace=True),
    'pool_reindent': dict(reindent=True, strip_comments=True, comma_first=True),
    'pool_case': dict(keyword_case='upper', identifier_case='lower', truncate_strings=4),
    'pool_aligned': dict(reindent_aligned=True, use_space_around_operators=True),
}
REFOPTS = [dict(strip_comments=True), dict(use_space_around_operators=True), dict(keyword_case='upper', identifier_case='upper'),
           dict(strip_whitespace=True), dict(reindent=True)]


def entries(texts):
    out = []
    for t in list(texts) + PROBES:
        out.append(('shape', t, {}))
        out.append(('split', t, {}))
        for o in REFOPTS:
            out.append(('format', t, o))
    # byte input without an encoding: UTF-8 first, Latin-1 as documented fallback - per call, not per process
    for t in ['select "é", \'naïve ☃\' from tbl', 'select caf\u00e9']:
        out.append(('split_bytes', t, {}))
        out.append(('format_bytes', t, {}))
    return out


def evaluate(ents):
    import sqlparse
    from .shaperec import shape
    res = []
    for kind, t, o in ents:
        try:
            if kind == 'shape':
                r = shape(t)
            elif kind == 'split':
                r = sqlparse.split(t)
            elif kind == 'split_bytes':
                r = sqlparse.split(t.encode('utf-8'))
            elif kind == 'format_bytes':
                r = sqlparse.format(t.encode('utf-8'), keyword_case='upper')
            else:
                r = sqlparse.format(t, **o)
        except Exception as e:  # noqa
            r = '<<%s>>' % type(e).__name__
        res.append(digest(r))
    return res


def pool_call(op, text):
    import sqlparse
    try:
        if op == 'pool_parse':
            [s.get_type() for s in sqlparse.parse(text)]
        elif op == 'pool_split':
            sqlparse.split(text)
        else:
            sqlparse.format(text, **FAMILIES[op])
    except Exception:  # noqa  (a call that raised is part of a history)
        pass


def evaluate_isolated(ents):
    """every entry as the FIRST library call of a process: one forked child per entry (the parent has imported
    sqlparse but never called it)"""
    import os
    res = []
    for e in ents:
        r, w = os.pipe()
        pid = os.fork()
        if pid == 0:
            os.close(r)
            try:
                os.write(w, evaluate([e])[0].encode())
            finally:
                os._exit(0)
        os.close(w)
        data = b''
        while True:
            chunk = os.read(r, 4096)
            if not chunk:
                break
            data += chunk
        os.close(r)
        os.waitpid(pid, 0)
        res.append(data.decode())
    return res


if __name__ == '__main__':
    pool = json.load(open(sys.argv[1]))
    print(json.dumps(evaluate_isolated(entries(pool['battery_texts']))))
