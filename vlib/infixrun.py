"""S->C binding of GroupInfix.tla: the behaviours TLC enumerates are replayed into the real
sqlparse.engine.grouping._group with synthetic tokens (one token per abstract kind)."""
from . import tlc


def cfg(maxlen, extend, mode, emit):
    return ('SPECIFICATION Spec\nCONSTANTS\n MaxLen = %d\n Extend = %s\n PostMode = "%s"\n Emit = %s\n'
            'INVARIANT NoIndexError\nINVARIANT KidsTile\nINVARIANT GroupEdges\nINVARIANT PrintDone\n'
            % (maxlen, 'TRUE' if extend else 'FALSE', mode, 'TRUE' if emit else 'FALSE'))


def real_run(inp, extend, mode):
    """-> (kids as [[t, lo, hi]], sorted group spans, error name)"""
    from sqlparse import sql, tokens as T
    from sqlparse.engine import grouping

    class G(sql.TokenList):
        pass
    toks = []
    for k in inp:
        if k == 'w':
            toks.append(sql.Token(T.Whitespace, ' '))
        elif k == 's':
            toks.append(sql.Token(T.Punctuation, ';'))
        else:
            toks.append(sql.Token(T.Name, k))
    pos = {id(t): i + 1 for i, t in enumerate(toks)}
    tl = sql.TokenList(toks)

    def operand(t):
        return t is not None and (isinstance(t, G) or (t.ttype is T.Name and t.value == 'v'))

    def post(tlist, pidx, tidx, nidx):
        if mode == 'semi':          # group_assignment's post
            snidx, _ = tlist.token_next_by(m=(T.Punctuation, ';'), idx=nidx)
            nidx = snidx or nidx
        return pidx, nidx
    try:
        grouping._group(tl, G, lambda t: t.ttype is T.Name and t.value == 'm', operand, operand, post, extend=extend, recurse=False)
    except Exception as e:  # noqa
        return None, None, type(e).__name__

    def span(t):
        ls = list(t.flatten()) if t.is_group else [t]
        return pos[id(ls[0])], pos[id(ls[-1])]
    kids = []
    for t in tl.tokens:
        lo, hi = span(t)
        kids.append(['G' if isinstance(t, G) else ('w' if t.is_whitespace else ('s' if t.value == ';' else t.value)), lo, hi])
    groups = set()
    stack = list(tl.tokens)
    while stack:
        t = stack.pop()
        if t.is_group:
            if isinstance(t, G):
                groups.add(span(t))
            stack.extend(t.tokens)
    return kids, sorted(groups), ''


def replay(ctx, maxlen):
    n = bad = 0
    for extend in (True, False):
        for mode in ('pn', 'semi'):
            res = tlc.run(ctx.workdir, 'GroupInfix', cfg(maxlen, extend, mode, True), workers=1,
                          label='GroupInfix_emit_%s_%s' % (extend, mode), coverage=False, timeout=900)
            ctx.add_tlc(res, 'GroupInfix behaviours for replay (Extend=%s, post=%s, len<=%d)' % (extend, mode, maxlen))
            for p in res.printed:
                kids, groups, err = real_run(p['inp'], extend, mode)
                n += 1
                ctx.evals()
                want_kids = [list(k) for k in p['kids']]
                want_groups = sorted(tuple(g) for g in p['groups'])
                if err or kids != want_kids or [tuple(g) for g in groups] != want_groups:
                    bad += 1
                    if bad <= 3:
                        ctx.drift('GroupInfix.tla (Extend=%s, post=%s) predicts %s / groups %s for %s, grouping._group gives %s / %s %s'
                                  % (extend, mode, want_kids, want_groups, ''.join(p['inp']), kids, groups, err))
    ctx.cov['groupinfix_replayed'] = n
    ctx.cov['groupinfix_disagreements'] = bad
    return n, bad


def assignment_texts(ctx, n, seed, rng):
    """token-kind sequences of GroupInfix.tla (assignment-style post, up to 14 tokens) spelled as SQL: `:=` as the middle
    token, variables / numbers as operands, keywords and commas as non-operands.  The real pass (group_assignment) then
    runs inside parse() and the tree goes through the C02/C03 clauses."""
    # generator use only: the safety invariants are checked by the exhaustive runs (they do NOT all hold for the assignment
    # post at this length - DESIGN 8 #16 - which is exactly why these sequences are interesting inputs)
    c = '\n'.join(l for l in cfg(14, True, 'semi', True).splitlines() if not l.startswith('INVARIANT') or 'PrintDone' in l) + '\n'
    res = tlc.run(ctx.workdir, 'GroupInfix', c, workers=1, label='GroupInfix_assign_sim', coverage=False, timeout=900,
                  simulate='num=%d' % n, depth=34, seed=seed)
    ctx.add_tlc(res, 'GroupInfix token sequences (assignment post, len<=14) for parse inputs')
    out, seen = [], set()
    for p in res.printed:
        k = tuple(p['inp'])
        if k in seen or len(k) < 5:
            continue
        seen.add(k)
        sp = {'v': ['@a', 'b', '1', '@i', 'x2'], 'x': ['select', ',', 'from', 'set'], 'm': [':='], 'w': [' ', '  '], 's': [';']}
        out.append(' '.join(rng.choice(sp[t]) for t in k))
    return out
