"""Known-findings matcher.  A finding's `match` is a small predicate language
over the *case* dict a check attaches to a failing case:

  {"tag": "x"}                      -> "x" in case["tags"]
  {"field": "f", "equals": v}       -> case[f] == v
  {"field": "f", "in": [..]}        -> case[f] in list
  {"field": "f", "regex": "..."}    -> re.search on str(case[f])
  {"all": [m1, m2..]} / {"any": [..]} / {"not": m}

Checks derive `tags` from the abstract behaviour (e.g. which constructs the
script contains, which exception site raised), never from the verdict alone, so
a different violation of the same property does not match.
"""
import re


def matches(m, case):
    if 'all' in m:
        return all(matches(x, case) for x in m['all'])
    if 'any' in m:
        return any(matches(x, case) for x in m['any'])
    if 'not' in m:
        return not matches(m['not'], case)
    if 'tag' in m:
        return m['tag'] in case.get('tags', [])
    if 'field' in m:
        v = case.get(m['field'])
        if 'equals' in m:
            return v == m['equals']
        if 'in' in m:
            return v in m['in']
        if 'regex' in m:
            return v is not None and re.search(m['regex'], str(v)) is not None
    return False
