"""Members of the character classes of spec/LexChars.tla (DESIGN 4.1)."""
MEMBERS = {
    'sq': ["'"], 'dq': ['"'], 'bt': ['`'], 'bs': ['\\'], 'dash': ['-'], 'slash': ['/'], 'star': ['*'], 'hash': ['#'],
    'dollar': ['$'], 'plus': ['+'], 'amp': ['^', '&', '|'], 'colon': [':'], 'qm': ['?'], 'semi': [';', ','], 'lp': ['('], 'rp': [')'],
    'dot': ['.'], 'eq': ['='], 'lt': ['<', '~', '!'], 'lf': ['\n'], 'cr': ['\r'],
    'sp': [' '], 'tab': ['\t', '\x0b', '\x0c', '\x1c', '\x1f', '\x85', '\xa0', '\u2028', '\u3000', '\u2003'],
    # letters of [A-ZÀ-Ü] (both cases) except those with a lexical role of their own: e/E (exponent), x/X (hex)
    'a': list('zZqQkKgGmM') + ['\xc0', '\xe0', '\xd6', '\xfc', '\xdc', '\xc9'],
    # \w characters that are neither [A-ZÀ-Üa-zà-ü_] nor digits
    'w': ['\xdf', '\xfe', '\xff', 'ж', '业', 'Ω', '\xb5', '\xaa'],
    'd': list('123456789') + ['٣', '१'],
    'us': ['_'],
    # no rule accepts these
    'nul': ['\x00', '\x01', '\x08', '\x0e', '\x1b', '\x7f', '\x80', '\xa4', '\xa7', '\ud800', '\udfff', '​', '\U0001f600'],
}
CANON = {k: v[0] for k, v in MEMBERS.items()}


def concretise(symbols, rng=None):
    if rng is None:
        return ''.join(CANON[s] for s in symbols)
    return ''.join(rng.choice(MEMBERS[s]) for s in symbols)


def coarse(ttype):
    """real token type -> type name of LexChars.tla"""
    s = str(ttype)
    table = [('Token.Comment.Single.Hint', 'Comment.Single.Hint'), ('Token.Comment.Multiline.Hint', 'Comment.Multiline.Hint'),
             ('Token.Comment.Single', 'Comment.Single'), ('Token.Comment.Multiline', 'Comment.Multiline'),
             ('Token.Text.Whitespace.Newline', 'Newline'), ('Token.Text.Whitespace', 'Whitespace'), ('Token.Assignment', 'Assignment'),
             ('Token.Punctuation', 'Punctuation'), ('Token.Wildcard', 'Wildcard'), ('Token.Name.Placeholder', 'Placeholder'),
             ('Token.Literal.String.Single', 'String.Single'), ('Token.Literal.String.Symbol', 'String.Symbol'),
             ('Token.Literal.Number.Float', 'Float'), ('Token.Literal.Number.Integer', 'Integer'),
             ('Token.Literal.Number', 'Number'), ('Token.Literal', 'Literal'), ('Token.Generic.Command', 'Command'),
             ('Token.Operator.Comparison', 'Comparison'), ('Token.Operator', 'Operator'), ('Token.Error', 'Error'),
             ('Token.Name', 'Name'), ('Token.Keyword', 'Name')]
    for pre, name in table:
        if s == pre or s.startswith(pre + '.'):
            return name
    return s
