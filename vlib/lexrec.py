"""Recording executions of the real lexer (trace kind `lex`)."""
import itertools
import random

from .core import cps, REPO  # noqa
from .lexclasses import coarse

# class representatives (DESIGN 4.1); order matters only for reproducibility
SIGMA = ["'", '"', '`', '´', '\\', '-', '/', '*', '#', '$', '+', ':', '?',
         '%', '@', '.', ',', ';', '(', ')', '[', ']', '=', '<', '|', '\n', '\r',
         ' ', '\t', 'z', 'E', 's', 'x', 'É', 'ß', '_', '1', '0', '\x00']
SIGMA_QUICK = ["'", '"', '`', '\\', '-', '/', '*', '#', '$', ':', '.', ';',
               '(', '\n', '\r', ' ', 'z', 'E', '1', '\x00', '+', '?']


class LexRecorder:
    def __init__(self):
        from sqlparse.lexer import Lexer
        self.lx = Lexer()
        self.lx.default_initialization()
        self.calls = []
        self.instrumented = True
        try:
            wrapped = []
            for i, (m, tt) in enumerate(self.lx._SQL_REGEX):
                wrapped.append((self._mk(i, m), tt))
            self.lx._SQL_REGEX = wrapped
            self.nrules = len(wrapped)
        except Exception:
            self.instrumented = False
            self.nrules = 0

    def _mk(self, i, m):
        calls = self.calls

        def w(t, p):
            r = m(t, p)
            calls.append((i, p, r.end() if r else None, t))
            return r
        return w

    def record(self, text, tid):
        """-> trace dict"""
        from sqlparse import lexer, tokens as T
        tr = {'id': tid, 'text': cps(text), 'nrules': max(self.nrules, 1),
              'ev': [], 'exc': '', 'plain': False, 'region': {'lo': 0, 'hi': 0, 'ty': ''}}
        # 1. the real entry point
        real = None
        cap = len(text) + 64          # a lossless lexer never emits more characters than it was given
        try:
            real = []
            total = 0
            for tt, v in lexer.tokenize(text):
                real.append((str(tt), v))
                total += len(v)
                if total > cap or len(real) > cap:
                    break             # runaway (duplication): the truncated trace already fails the tiling clauses
        except Exception as e:  # noqa
            tr['exc'] = type(e).__name__
        # 2. instrumented instance of the same class
        evs = []
        inst = None
        if self.instrumented and real is not None:
            del self.calls[:]
            inst = []
            try:
                it = self.lx.get_tokens(text)
                while True:
                    mark = len(self.calls)
                    try:
                        tt, v = next(it)
                    except StopIteration:
                        break
                    cs = self.calls[mark:]
                    scans = sum(1 for c in cs if c[0] == 0)
                    last0 = max([k for k, c in enumerate(cs) if c[0] == 0], default=0)
                    lastscan = cs[last0:]
                    if lastscan:
                        i, p, e, t = lastscan[-1]
                        ev = {'scans': scans, 'pos': p + 1, 'tried': len(lastscan),
                              'rule': (i + 1) if e is not None else 0,
                              'end': (e + 1) if e is not None else p + 2,
                              'sametext': all(c[3] == text for c in cs)}
                    else:
                        ev = {'scans': 0, 'pos': 0, 'tried': 0, 'rule': 0, 'end': 0,
                              'sametext': True}
                    ev['err'] = tt is T.Error
                    ev['ty'] = str(tt)
                    ev['cty'] = coarse(tt)
                    ev['val'] = cps(v)
                    evs.append(ev)
                    inst.append((str(tt), v))
                    if len(inst) >= len(real):
                        break
            except Exception:
                inst = None
        if real is not None and inst == real:
            tr['ev'] = [dict(e, scans=(e['scans'] if e['sametext'] else 99)) for e in evs]
            for e in tr['ev']:
                del e['sametext']
        elif real is not None:
            # observable-only trace: positions from cumulative lengths
            tr['plain'] = True
            p = 1
            for tt, v in real:
                tr['ev'].append({'scans': 1, 'pos': p, 'tried': 0, 'rule': 0,
                                 'end': p + len(v), 'err': tt == 'Token.Error',
                                 'ty': tt, 'cty': coarse(tt), 'val': cps(v)})
                p += len(v)
        return tr


def sigma_strings(alpha, maxlen):
    for n in range(0, maxlen + 1):
        for t in itertools.product(alpha, repeat=n):
            yield ''.join(t)


def random_unicode(rng, maxlen=60):
    n = rng.randint(0, maxlen)
    out = []
    for _ in range(n):
        r = rng.random()
        if r < 0.45:
            out.append(rng.choice(SIGMA))
        elif r < 0.6:
            out.append(chr(rng.randint(0, 0x7f)))
        elif r < 0.75:
            out.append(chr(rng.randint(0x80, 0x24f)))
        elif r < 0.85:
            out.append(chr(rng.randint(0x250, 0xffff)))
        elif r < 0.9:
            out.append(chr(rng.randint(0xd800, 0xdfff)))
        elif r < 0.95:
            out.append(chr(rng.randint(0x10000, 0x10ffff)))
        else:
            out.append(rng.choice(['select', 'from', "''", '--', '/*', '*/', '$$',
                                   '$a$', 'end if', 'order  by', '0x1F', '1e5',
                                   '::', ':=', 'GO 2', '\r\n', 'x.y', 'f(']))
    return ''.join(out)


OPENERS = ["'", '"', '`', '´', '/*', '/*+', '--', '--+', '# ', '#', '$$', '$a$',
           '$a', '[', '(', '\\', "''", '""', '*/', '\n', '\r\n', ';', ' ', 'x', '1',
           "\\'", '\\"', '$', 'a$b$', '%(', '%(x)s', ':x', '?', '@x', '@xy', '##ab',
           '0x', '1.', '.5', '1e', '1e-3', '-1', 'E', 'é', 'ß', '\x00', '\x85', ' ']


def opener_mixes(maxn=3):
    for n in range(1, maxn + 1):
        for t in itertools.product(OPENERS, repeat=n):
            yield ''.join(t)


NOTABLE = [0x0, 0x1, 0x7f, 0x85, 0xa0, 0xad, 0x200b, 0x200e, 0x2028, 0x2029, 0x202e, 0x2060, 0xfeff, 0xfffd, 0xfffe, 0xffff,
           0xd800, 0xdbff, 0xdc00, 0xdfff, 0xe000, 0x10000, 0x1f600, 0xe0001, 0x10ffff, 0x1680, 0x3000, 0x0300, 0x0660, 0x2160, 0xff21]


def notable_inputs():
    """texts with a notable code point (BOM, zero-width, separators, surrogates, non-characters, ...) at the
    start, in the middle and at the end of ordinary statements"""
    bases = ['select 1', "select 'a' from t; select 2", '']
    out = []
    for cp in NOTABLE:
        c = chr(cp)
        for b in bases:
            out += [c + b, b + c, b[:3] + c + b[3:], c + c + b, c + ';' + b]
    return out


def long_token_inputs():
    """one very long token per text (thresholds around powers of two)"""
    out = []
    for n in (100, 1000, 4095, 4096, 4097, 5000, 20000):
        out.append("select '" + 'x' * n + "' from t")
        out.append('select 1 /* ' + 'c' * n + ' */ from t')
        out.append('select $$' + 'd;' * (n // 2) + '$$, 2')
        out.append('select ' + 'n' * n + ' from t')
        out.append('select "' + 'q' * n + '", 1')
        out.append('select 1 -- ' + 'l' * n + '\nfrom t')
        out.append('select ' + '9' * n)
        out.append('select' + ' ' * n + '1')
    return out


def rule_samples(rng, per_rule=12):
    """inputs shaped by the lexer's own rule table: random strings built along the parse tree of every regular
    expression (every whitespace position inside a rule realised by blanks, tabs, line breaks, Unicode spaces),
    alone and embedded in a statement"""
    from sqlparse import keywords as K
    from . import regexnfa
    out = []
    for rx, _tt in K.SQL_REGEX:
        try:
            ss = regexnfa.samples(rx, rng, per_rule)
        except ValueError:
            continue
        for x in ss:
            if not x or len(x) > 200:
                continue
            out.append(x)
            out.append(rng.choice(['select a ', 'x\n', '(', 'a;']) + x + rng.choice([' b from t', '\n1', ')', ';c', '']))
            if rng.random() < 0.3:
                out.append(x + rng.choice([' ', '\n', ' x ']) + x)           # the same sample twice (an opener meets its own closer again)
    return out


def compat_keyword_inputs(rng, n=60):
    """table keywords written in Unicode compatibility characters (full-width letters and digits, superscript digits):
    whatever the lexer makes of such a word, its value is the text that was written"""
    from . import extract
    words = sorted(w for w in extract.all_keyword_words() if w.isalnum())
    pick = [w for w in ('SELECT', 'FROM', 'INT8', 'WHERE', 'ORDER', 'NULL') if w in words] + rng.sample(words, min(n, len(words)))

    def wide(c):
        if 'A' <= c <= 'Z' or 'a' <= c <= 'z' or '0' <= c <= '9':
            return chr(ord(c) - 0x21 + 0xff01)
        return c
    sup = {'0': '\u2070', '1': '\u00b9', '2': '\u00b2', '3': '\u00b3', '4': '\u2074', '5': '\u2075', '6': '\u2076', '7': '\u2077', '8': '\u2078', '9': '\u2079'}
    out = []
    for w in pick:
        for v in (w.lower(), w.capitalize()):
            full = ''.join(wide(c) for c in v)
            out += [full, 'select ' + full + ' from t', v[:1] + ''.join(wide(c) for c in v[1:])]
            if any(c.isdigit() for c in v):
                out.append(''.join(sup.get(c, c) for c in v) + ' x')
    return out
