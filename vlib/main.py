import argparse
import importlib
import json
import os
import sys

from . import core

LEVELS = {}


def main():
    ap = argparse.ArgumentParser()
    ap.add_argument('pid')
    ap.add_argument('--tier', default=os.environ.get('VERIF_TIER', 'quick'))
    ap.add_argument('--replay')
    ap.add_argument('--selftest', action='store_true')
    a = ap.parse_args()
    os.chdir(core.VERIF)
    mod = importlib.import_module('vlib.checks.' + a.pid.lower())
    level = getattr(mod, 'LEVEL', 'model_checking')
    if a.replay:
        with open(a.replay) as f:
            rec = json.load(f)
        rc = mod.replay(rec)
        sys.exit(rc)
    sys.exit(core.run_check(mod.run, a.pid, a.tier, level))


if __name__ == '__main__':
    main()
