"""Single source for MANIFEST.json: `python -m vlib.manifest` rewrites and validates it."""
import json
import os

from .core import VERIF

BASELINE = ("cd /repo && /venv/bin/python -m pytest -ra -q -p no:cacheprovider "
            "--timeout=900 --continue-on-collection-errors")

CHECKS = {
    'C01': dict(
        category='model_checking',
        text=("TLC exhaustively checks the implementation-shaped scan loop (LexScan.tla) for every match outcome "
              "compatible with the rule widths extracted from the working tree (tiling, non-empty tokens, no negative "
              "consume count, progress, termination); every real execution on exhaustive short class strings, random "
              "Unicode, opener mixes and the repo fixtures is recorded with the scan position / rule index / rules tried "
              "per token and validated step by step by TLC (TraceLexScan.tla) with a total verdict."),
        design_ref='DESIGN.md §5 C01',
        note=("trusted: CPython re, TLC; the design model abstracts rules to their width intervals; the link to all texts "
              "rests on the character-class alphabet plus random Unicode traces"),
        technique='TLA+ scan-loop model checked by TLC + TLC trace validation of instrumented lexer runs'),
    'C02': dict(
        category='model_checking',
        text=("Every parse() result is projected (iteratively) into a node table and validated by TLC (TraceParse.tla over TokenTree.tla/"
              "Text.tla): str(node) equals the concatenation of its leaf values for every node, the statements' leaves are the lexer's "
              "tokens in order, only blank tokens are missing at the end, and the statement texts concatenate to the input up to trailing "
              "whitespace. Inputs are TLC-generated (delimiter sequences enumerated exhaustively per interaction alphabet; ScriptGen scripts "
              "and junk sequences) plus exhaustive short class strings, random Unicode and repo fixtures."),
        design_ref='DESIGN.md §5 C02',
        note='the design-level TokenTree GroupTokens model is checked under C03; trusted: TLC, projection code',
        technique='TLC trace validation of projected parse trees against a TLA+ tree specification; TLC-generated inputs'),
    'C03': dict(
        category='model_checking',
        text=("Same node tables, structural clauses: every node occurs once, groups non-empty, Token.parent = containing group, cached "
              "value = text, leaves = lexer tokens (re-typing only Wildcard/Operator -> Operator); the navigation helpers (token_next/"
              "token_prev with all flag combinations, token_first, token_index, get_token_at_offset for every offset, within, "
              "has_ancestor, is_child_of; within with base classes and tuples, token_index with its start argument) are called on the real tree and TLC recomputes every answer with the TokenTree.tla operators. GroupInfix.tla (the _group joiner with its index bookkeeping) and TreeOps.tla (group_tokens) are model checked and BOUND to the code: all their behaviours up to the bound are replayed into the real functions."),
        design_ref='DESIGN.md §5 C03',
        note='trusted: TLC, projection code; navigation queries are sampled on larger trees (all on small ones)',
        technique='TLC trace validation of projected parse trees and navigation answers against TokenTree.tla'),
    'C04': dict(
        category='model_checking',
        text=("Design level: in the lock-step model a Splitter started fresh at each statement start stays equal to the running one "
              "(re-splitting a piece = splitting from a fresh state; an incomplete-reset mutant of the model is rejected). Code level: "
              "a state/transition cover of the lock-step product graph (each script completed by closing moves and followed by probe "
              "statements), simulated scripts incl. junk, short class strings, random Unicode and fixtures go through parse(), split(), "
              "split(piece), split(strip_semicolon); TLC (TraceSplit.tla, Text.tla) decides count agreement, piece = strip(statement), "
              "whitespace-separated partition of the input and re-split idempotence per trace."),
        design_ref='DESIGN.md §5 C04',
        note='trusted: TLC, Python str.strip whitespace set transcribed in Text.tla',
        technique='TLA+ lock-step model (TLC) + graph-cover behaviours replayed + TLC trace validation of split/parse runs'),
    'C05': dict(
        category='model_checking',
        text=("TLC explores the implementation-shaped Splitter.tla in lock-step with the ScriptGen.tla generator whose frame stack is "
              "the reference monitor (scripts of any length, script hidden by VIEW): every significant token must land in the statement "
              "numbered by the final semicolons before it.  TLC-emitted scripts are spelled (two spellings each, opaque-region bodies "
              "replaced by hostile bodies) and run through parse()/split(); TLC validates every recorded run (TraceSplit.tla) while "
              "stepping the Splitter model next to it."),
        design_ref='DESIGN.md §5 C05',
        note=("token-level half decided here; character-level opacity of the region rules is C14's model; plain scripts = ScriptGen "
              "with constructs caseexpr, parensemi, createplain, txbegin"),
        technique='TLA+ lock-step refinement check (TLC) + TLC-generated scripts replayed + TLC trace validation'),
    'C06': dict(
        category='model_checking',
        text=("Options.tla transcribes validate_options/build_filter_stack; TLC enumerates all 6144 layout option states, checks that "
              "they yield layout stages only and in the right order, and every state's predicted stage list is compared with the real "
              "filter stack. SqlGen.tla (derivation machine of the verification grammar) generates programs that are spelled with "
              "comments, hints and line breaks in the gaps; each format() run is recorded stage by stage (harness-side wrappers) and "
              "TLC steps TraceFormat.tla through it: every layout stage must leave the significant-token sequence unchanged, the "
              "re-lexed output must carry exactly the input's significant tokens, statement count unchanged."),
        design_ref='DESIGN.md §5 C06',
        note=("programs x option states are sampled (TLC -simulate derivations x random option states), not the full product; one "
              "recorded finding (serialiser rewrites line ends inside multi-line tokens) is a dedicated clause of the trace spec"),
        technique='TLA+ option/filter-stack model (TLC exhaustive) + TLA+ grammar-generated programs + TLC trace validation per stage'),
    'C07': dict(
        category='model_checking',
        text=("Pipeline.tla models FilterStack.run and its callers (which exception kinds can leave an entry point; an invalid option is "
              "rejected before lexing) and is checked by TLC; Options.tla with BAD / out-of-range representatives supplies invalid and "
              "valid option states. Mutated SqlGen programs (drop/duplicate/swap/insert a token), ScriptGen junk sequences, TLC delimiter "
              "sequences, short class strings and random Unicode go through parse (then every read-only accessor on every node), split "
              "(both modes) and format x option states; TLC (TracePipeline.tla) decides every call: outcome in {ok, SQLParseError}, no "
              "accessor raises, invalid options rejected before any lexing."),
        design_ref='DESIGN.md §5 C07',
        note='documented options only (right_margin excluded: undocumented stub); inputs x options sampled',
        technique='TLA+ pipeline/option models (TLC) + TLA+-generated inputs and option states replayed + TLC validation of outcomes'),
    'C08': dict(
        category='model_checking',
        text=("TLC computes, per recorded format() run, the token sequence the targeted filters must produce (TraceFormat.tla: "
              "PreExpected for keyword_case/identifier_case/truncate_strings incl. the doubled-quote rule, DropComments for "
              "strip_comments with hints kept) and compares it with the statements' leaves after each stage and with the re-lexed output "
              "(nothing fused or split); idempotence is checked on the token level. Option states come from Options.tla, programs from "
              "SqlGen.tla with comments/hints in every kind of gap."),
        design_ref='DESIGN.md §5 C08',
        note='one recorded finding (comment removal at a group boundary glues neighbours) is a dedicated, exactly stated clause',
        technique='TLA+ expected-effect model of the targeted filters evaluated by TLC on recorded runs; TLA+-generated programs/options'),
    'C09': dict(
        category='model_checking',
        text=("TLC checks the transcription of _group_matching with its real index arithmetic (GroupMatching.tla) against the textbook "
              "stack matcher for every sequence up to the bound (off-by-one mutant rejected), and compares the code-shaped multi-class "
              "matcher with the textbook interior matcher (MatchRef.tla) at design level. TLC-enumerated delimiter sequences are spelled "
              "and parsed; TLC decides for each real tree that the Parenthesis/SquareBrackets/Case/If/For/Begin nodes are exactly "
              "MatchRef's intervals, each starting with its opener and ending (ignoring attached comments) with its closer."),
        design_ref='DESIGN.md §5 C09',
        note='one recorded finding (CASE/BEGIN shared END) matched by clause + model prediction + trigger tags',
        technique='TLA+ model of the matcher (TLC exhaustive) + TLC-generated sequences replayed + TLC trace validation against MatchRef'),
    'C10': dict(
        category='model_checking',
        text=("The normal forms are TLA+ predicates over the re-lexed output (TraceFormat.tla: NF_strip, NF_ops, NF_reindent_kw, "
              "NF_no_trailing_blank) and the fixed-point clause format(format(x)) = format(x); TLC evaluates them on every recorded run "
              "of SqlGen programs x option states of Options.tla (strip_whitespace, use_space_around_operators, reindent with every "
              "sub-option)."),
        design_ref='DESIGN.md §5 C10',
        note='canonical single-blank multi-word keywords (respellings are C11); programs x options sampled',
        technique='TLA+ normal-form predicates evaluated by TLC on recorded format() runs; TLA+-generated programs/options'),
    'C11': dict(
        category='model_checking',
        text=("Spelling.tla models the comparison sites of the code (which projection of a keyword's spelling each one inspects) and TLC "
              "lists the spelling-sensitive ones. TLC-generated programs (SqlGen) and procedural scripts (ScriptGen, simulate + state "
              "cover with probes) are written in canonical spelling and respelled: every whitespace position, including those inside "
              "multi-word keywords, gets another non-empty filler, every keyword another casing. TLC (TraceShape.tla) compares statement "
              "count, boundaries, get_type() and the tree shape entry by entry."),
        design_ref='DESIGN.md §5 C11',
        note='respelling is driven by the real lexer tokenisation of the canonical text; assignments of fillers are sampled',
        technique='TLA+ comparison-site model (TLC) + TLC-generated programs respelled + TLC trace validation of shape equality'),
    'C12': dict(
        category='model_checking',
        text=("SqlGen.tla annotates every object reference it derives with its name / qualifier / alias spans; programs (start symbols "
              "RefProbe and Script) are spelled with unquoted, double-quoted and backtick names, with and without AS, under blank/tab/"
              "line-break gaps. For every reference in a context the property names, TLC (TraceAccessors.tla) requires an Identifier "
              "node whose get_real_name/get_parent_name/get_alias/get_name/has_alias equal the written parts with quotes removed. "
              "Accessors.tla transcribes the accessor code line by line: TLC checks it for all written reference shapes and its answers on "
              "every token list up to the bound are compared with the real classes (binding). One list of a program is also replicated "
              "past 10000 tokens (the result must not depend on the other items)."),
        design_ref='DESIGN.md §5 C12',
        note='name pools are verified against the keyword dictionaries; programs are sampled by TLC -simulate',
        technique='TLA+ grammar with structure annotations (TLC-generated programs) + TLC validation of accessor results'),
    'C13': dict(
        category='model_checking',
        text=("Same annotated programs: TLC requires for every annotated WHERE clause, item list, call, CASE, comparison and typed "
              "literal a node of the right class with the written extent and get_identifiers / get_parameters / get_cases / left,right "
              "equal to the written parts. Failures whose element shapes (computed from the grammar's annotation) include a construct "
              "sqlparse does not group are one recorded finding; everything else alarms."),
        design_ref='DESIGN.md §5 C13',
        note='whitespace-only gaps (comments inside clauses are outside C13); one class-level recorded finding',
        technique='TLA+ grammar with structure annotations (TLC-generated programs) + TLC validation of node extents and accessors'),
    'C14': dict(
        category='model_checking',
        text=("LexChars.tla is a character-level model of the rule table over 28 character classes: every reachable rule is an "
              "operator written from its regular expression with its priority semantics (greedy/lazy, alternation order, back-tracking "
              "against look-aheads, look-behinds). TLC checks on it, for 7 region kinds x 56 contexts x all bodies up to the bound "
              "(doubled quotes allowed, terminator and backslash excluded), that the region is exactly one token of its type and no `;` "
              "token lies inside. The model is bound to the code: every class string up to the bound is emitted with its predicted "
              "tokens and compared with the real lexer under canonical and random class members (0 disagreements on the unchanged tree); "
              "TLC-simulated region instances with bodies up to 12 symbols are concretised over the full character set and validated by "
              "TLC (TraceLexScan region clauses). KeywordTable.tla (dictionaries and dedicated-rule words extracted from the tree) gives "
              "each word's type by the first listing dictionary; every word x 4 casings x contexts is lexed and compared."),
        design_ref='DESIGN.md §5 C14',
        note='rules needing characters outside the class alphabet (hex, exponent, %s, @name, [name]) are not in LexChars; long bodies are sampled',
        technique='character-level TLA+ lexer model checked by TLC + model-vs-lexer replay + TLC trace validation of region instances + TLA+ keyword table'),
    'C15': dict(
        category='fault_enumeration',
        text=("Pipeline.tla says where a RecursionError can arise and that it is always translated (TLC, all entry points x stages); "
              "its fault points are realised on the code: RecursionError is injected at the k-th call of each of 22 recursive routines "
              "(grouping passes, every filter, serialiser) for 9 entry points/option sets - outcome must be SQLParseError when the fault "
              "was reached and later calls must give pristine results. Real depth: 10 nesting constructs x depths up to 1000 (thorough: "
              "10000) x recursion limits x entry points in subprocesses (exit status, outcome, later call, iterative round-trip check). "
              "Also: the FIRST library call and the FIRST formatting call of a fresh process made with (almost) no stack left, one subprocess per "
              "depth, later calls compared with a process that never saw deep input. TLC (TracePipeline.tla) decides every case."),
        design_ref='DESIGN.md §5 C15',
        note='C-level stack exhaustion is visible only as subprocess exit status; a per-case timeout counts as not explored',
        technique='TLA+ pipeline model (TLC) + fault enumeration on real callables + deep-nesting subprocess runs validated by TLC'),
    'C16': dict(
        category='model_checking',
        text=("For every regular expression the library runs (the patterns compiled into the default lexer, every re.Pattern reachable from the "
              "package's modules, every pattern compiled on the fly during a formatting workload) an NFA is extracted from its sre parse tree (one macro edge per distinct "
              "backtracking choice sequence; epsilon closure without empty loop iterations) and emitted as TLA+ constants; TLC explores "
              "the product automaton (RegexNFA.tla) for the classical exponential-ambiguity criterion (two different paths q -w-> q) and "
              "reports every ambiguous (rule, pivot). The same run must flag six known-bad patterns (incl. the pre-0.4.4 string rule) and "
              "none of three polynomial ones. The NFA is bound to re by fullmatch agreement on all class strings up to the bound; for "
              "every rule prefix+pump^n+suffix strings are tokenized in killable subprocesses under a CPU-time budget."),
        design_ref='DESIGN.md §5 C16',
        note=("TLC decides ambiguity of an over-approximating automaton (look-around = epsilon, back-reference = group copy); running "
              "time itself is measured, not model-checked; a flagged rule counts only if its pump string exceeds the budget"),
        technique='regex-to-NFA extraction + TLC reachability in the product automaton (EDA) + measured pump strings'),
    'C17': dict(
        category='model_checking',
        text=("Same lock-step composition with the procedural constructs of ScriptGen.tla (CREATE header, DECLARE, nested BEGIN, IF, "
              "FOR/WHILE/LOOP, WHILE..DO, CASE statements and expressions): all reachable disagreements are collected as witnesses, "
              "spelled and confirmed on the code; the construct set without recorded findings must be clean in the model. Emitted "
              "scripts and the repo's procedure fixtures (embedded between plain statements) are validated by TLC."),
        design_ref='DESIGN.md §5 C17',
        note=("two recorded findings (END LOOP, END CASE) are matched by clause + trigger construct + 'model predicts the observed "
              "pieces'; anything else alarms"),
        technique='TLA+ lock-step refinement check (TLC) + TLC-generated scripts replayed + TLC trace validation'),
    'C18': dict(
        category='model_checking',
        text=("TLC compares get_type() with the type annotated by SqlGen.tla for every generated statement (comments/hints in the gaps) "
              "and for a product of leading keywords x casings x inner whitespace of multi-word keywords x whitespace/comment prefixes x "
              "continuations, incl. CTE forms and non-DML/DDL heads (UNKNOWN)."),
        design_ref='DESIGN.md §5 C18',
        note='one recorded finding (comment inside the CTE list) is a dedicated clause',
        technique='TLA+ grammar annotations + TLC validation of get_type() results'),
    'C19': dict(
        category='model_checking',
        text=("Frontends.tla enumerates (TLC, exhaustive) every meaningful combination of input form (str, stream, bytes+encoding, "
              "UTF-8 bytes, non-UTF-8 bytes) x content class (ASCII, Latin-1, BMP, astral, each with and without backslash sequences) "
              "x encoding x entry point; each case is realised and the result compared with the result for the same text as str; "
              "parsestream is compared with parse. The CLI's argument table is a TLA+ function from flag choices to the option set "
              "format() must receive (incl. the type=bool quirk); TLC-simulated flag/channel/encoding cases are run through cli.main "
              "in-process with byte-backed stdin/stdout or files and compared with format() of the decoded text."),
        design_ref='DESIGN.md §5 C19',
        note="Python's codecs are trusted; CLI cases are sampled from a product of about 1.3 million",
        technique='TLA+ case enumeration of the decode decision tree and CLI table (TLC) replayed on the real front ends'),
    'C20': dict(
        category='model_checking',
        text=("LexerInit.tla models get_default_instance/default_initialization step by step for 2 and 3 threads; TLC checks "
              "UseSeesComplete, AtMostOneCreate and mutual exclusion exhaustively and must find the race in the lock-free skeleton. "
              "Real threads are driven one line at a time by a deterministic scheduler (sys.settrace gate + instrumented Lexer._lock, no "
              "source hooks): every single pre-emption at each abstract state change in both orders, sampled double pre-emptions and "
              "3-thread runs; each run's projected singleton states are validated by TLC (TraceLexerInit.tla). ApiHistory.tla enumerates "
              "all operation histories up to the bound (raising calls, abandoned generators, RecursionError, lexer reconfiguration, "
              "clear, default_initialization, edited result trees, interleaved streams, byte input, calls drawn from a generated pool of SqlGen "
              "programs); each is replayed and followed by reference calls in random order, every answer compared with what the same call "
              "returns as the first call of a forked fresh process."),
        design_ref='DESIGN.md §5 C20',
        note='pre-emption granularity = Python line events in lexer.py; concurrent parse/format on an initialised lexer is covered by the battery only sequentially',
        technique='TLA+ thread-interleaving model (TLC exhaustive) + controlled real-thread schedules validated by TLC + TLC-enumerated API histories replayed'),
}

PENDING = {}

for i in range(1, 21):
    pid = 'C%02d' % i
    if pid not in CHECKS:
        PENDING[pid] = 'check not built yet in this session (planned in DESIGN.md §5/§10); no claim is made'


def build():
    checks = []
    for pid, c in sorted(CHECKS.items()):
        checks.append({
            'property_id': pid,
            'quick_cmd': 'bin/check %s --tier quick' % pid,
            'thorough_cmd': 'bin/check %s --tier thorough' % pid,
            'evidence_file': 'evidence/%s.json' % pid,
            'replay_cmd_template': 'bin/check %s --replay {path}' % pid,
            'engine': c.get('engine', 'tlc'),
            'level_claimed': {'category': c['category'], 'text': c['text'],
                              'design_ref': c['design_ref']},
            'level_note': c['note'],
            'technique': c['technique'],
        })
    m = {
        'version': 1,
        'setup_cmd': 'bin/setup',
        'hooks': {
            'guard': 'SQLPARSE_VERIF',
            'enable': 'no source hooks: all observations are made from the harness process on objects the public API exposes',
            'baseline_off_cmd': BASELINE,
            'source_commits': [],
            'add_only': True,
        },
        'engines': [
            {'name': 'tlc', 'path': 'spec/', 'kind_free_text':
             'TLA+ specifications model-checked by TLC; TLC-generated behaviours replayed into sqlparse; recorded executions validated by TLC trace specs',
             'serves_properties': sorted(CHECKS)},
        ],
        'checks': checks,
        'not_applicable': [{'property_id': p, 'reason': r} for p, r in sorted(PENDING.items())],
        'notes': 'bin/check <ID> --tier quick|thorough; exit 0 held / 1 violation / 2 machinery failure. See DESIGN.md.',
    }
    return m


def main():
    m = build()
    p = os.path.join(VERIF, 'MANIFEST.json')
    with open(p, 'w') as f:
        json.dump(m, f, indent=1)
    try:
        import jsonschema
        with open('/root/.vp/MANIFEST.schema.json') as f:
            jsonschema.validate(m, json.load(f))
        print('MANIFEST.json valid;', len(m['checks']), 'checks,', len(m['not_applicable']), 'not claimed')
    except ImportError:
        print('jsonschema not available; written unvalidated')


if __name__ == '__main__':
    main()
