LABEL_KIND = {
    'name': 'other', 'num': 'other', 'str': 'other', 'kw': 'kw', 'dml': 'kw',
    'when': 'kw', 'then': 'kw', 'else': 'kw', 'loop': 'kw', 'do': 'kw', 'in': 'kw',
    'function': 'kw', 'returns': 'kw', 'as': 'kw', 'type': 'other', 'assign': 'other',
    'cmp': 'other', 'lp': 'lp', 'rp': 'rp', 'semi': 'semi', 'ws': 'ws', 'nl': 'nl',
    'cmt1': 'cmt1', 'cmtm': 'cmtm', 'create': 'create', 'createorreplace': 'create',
    'declare': 'declare', 'begin': 'begin', 'end': 'end', 'if': 'if', 'for': 'for',
    'while': 'while', 'case': 'case', 'endif': 'endif', 'endloop': 'endloop',
    'endwhile': 'endwhile', 'go': 'go',
}
