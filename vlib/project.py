"""Projection: real objects -> abstract state (DESIGN 4.2).  Iterative walks only
(never the library's flatten()/str()), so it works at any depth and cannot mask
or cause a RecursionError."""
from .core import cps, REPO  # noqa


def splitter_kind(ttype, value):
    """the distinctions StatementSplitter makes (see spec/Splitter.tla)"""
    from sqlparse import tokens as T
    if ttype is T.Punctuation:
        if value == '(':
            return 'lp'
        if value == ')':
            return 'rp'
        if value == ';':
            return 'semi'
        return 'other'
    if ttype is T.Whitespace:
        return 'ws'
    if ttype is T.Newline:
        return 'nl'
    if ttype is T.Comment.Single:
        return 'cmt1'
    if ttype in T.Comment:
        return 'cmtm'
    if ttype in T.Whitespace:
        return 'ws'
    if ttype not in T.Keyword:
        return 'other'
    u = ' '.join(value.upper().split())
    if ttype is T.Keyword.DDL and u.startswith('CREATE'):
        return 'create'
    m = {'DECLARE': 'declare', 'BEGIN': 'begin', 'END': 'end', 'IF': 'if', 'FOR': 'for',
         'WHILE': 'while', 'CASE': 'case', 'END IF': 'endif', 'END WHILE': 'endwhile',
         'END LOOP': 'endloop', 'END FOR': 'endwhile'}
    if u in m:
        return m[u]
    if ttype is T.Keyword and value.split()[0].upper() == 'GO':
        return 'go'
    return 'kw'


def leaves(node):
    """iterative left-to-right leaves of a token tree"""
    out = []
    stack = [iter(node.tokens)]
    while stack:
        try:
            t = next(stack[-1])
        except StopIteration:
            stack.pop()
            continue
        if getattr(t, 'is_group', False) and hasattr(t, 'tokens'):
            stack.append(iter(t.tokens))
        else:
            out.append(t)
    return out


def text_of(node):
    if not getattr(node, 'is_group', False):
        return node.value
    return ''.join(t.value for t in leaves(node))


def groups(node):
    """iterative pre-order list of (group, depth, parent_by_containment)"""
    out = []
    stack = [(node, 0, None)]
    while stack:
        n, d, par = stack.pop()
        out.append((n, d, par))
        for c in reversed(n.tokens):
            if getattr(c, 'is_group', False):
                stack.append((c, d + 1, n))
    return out
