"""Subprocess side of C16's timing clause: tokenize prefix + pump^k + suffix for growing sizes,
print one JSON line per measurement (so the parent still has data if it must kill us)."""
import json
import sys
import time


def main():
    sys.path.insert(0, sys.argv[1])
    jobs = json.loads(sys.stdin.read())
    from sqlparse import lexer
    list(lexer.tokenize('select 1'))
    for j in jobs:
        pre, cyc, suf = j['pre'], j['cyc'], j['suf']
        for n in j['sizes']:
            k = max(1, n // max(1, len(cyc)))
            text = pre + cyc * k + suf
            best = None
            for _ in range(2):
                # CPU-time limit for THIS measurement, enforced by the kernel (SIGXCPU ends the process even inside one C-level
                # regex match) and independent of how loaded the machine is - unlike a wall-clock timeout of the parent
                try:
                    import resource
                    hard = resource.getrlimit(resource.RLIMIT_CPU)[1]
                    resource.setrlimit(resource.RLIMIT_CPU, (int(time.process_time() + 2 * j['cap'] + 3), hard))
                except Exception:  # noqa
                    pass
                t0 = time.process_time()
                for _x in lexer.tokenize(text):
                    pass
                dt = time.process_time() - t0
                best = dt if best is None else min(best, dt)
                if dt > j['cap']:
                    break
            print('@@' + json.dumps({'job': j['id'], 'n': n, 't': best}), flush=True)
            if best > j['cap']:
                break


if __name__ == '__main__':
    main()
