"""NFA extraction from the lexer's regular expressions (C16).

A Thompson-style epsilon-NFA is built from the sre parse tree of every rule;
epsilon paths are then collapsed into *macro edges* <<p, classes, pathId, q>>,
one per distinct backtracking choice sequence (alternation branch, loop
continue/exit, optional take/skip) followed by one consumed character.  The
epsilon closure admits every path except those containing an EMPTY LOOP
ITERATION (enter a loop body and come back to its head without consuming) -
the only epsilon cycles sre itself refuses.  Look-around and anchors are
epsilon, a back-reference is a copy of its group: both only add paths.
"""
import re
import unicodedata

try:
    import re._parser as sre_parse
    import re._constants as sre_c
except ImportError:  # pragma: no cover
    import sre_parse
    import sre_constants as sre_c

FLAGS = re.IGNORECASE | re.UNICODE
MAXREPEAT = sre_c.MAXREPEAT


# ---------------------------------------------------------------- atoms ------
class Atom:
    """a one-character predicate"""

    def __init__(self, kind, arg=None):
        self.kind, self.arg = kind, arg

    def test(self, cp):
        c = chr(cp)
        k = self.kind
        if k == 'any':
            return c != '\n'
        if k == 'lit':
            return _fold_eq(cp, self.arg)
        if k == 'notlit':
            return not _fold_eq(cp, self.arg)
        if k == 'in':
            neg, items = self.arg
            hit = any(_item(cp, it) for it in items)
            return hit != neg
        raise ValueError(k)

    def probes(self):
        out = set()
        if self.kind in ('lit', 'notlit'):
            out |= {self.arg, self.arg - 1, self.arg + 1}
        elif self.kind == 'in':
            for it in self.arg[1]:
                if it[0] == 'lit':
                    out |= {it[1] - 1, it[1], it[1] + 1}
                elif it[0] == 'range':
                    out |= {it[1] - 1, it[1], it[2], it[2] + 1}
        res = set()
        for p in out:
            if 0 <= p < 0x110000:
                res.add(p)
                for q in (ord(x) for x in (chr(p).lower() + chr(p).upper()) if len(x) == 1):
                    res.add(q)
        return res


def _variants(cp):
    c = chr(cp)
    out = {cp}
    for x in (c.lower(), c.upper()):
        if len(x) == 1:
            out.add(ord(x))
    return out


def _fold_eq(cp, lit):
    return bool(_variants(cp) & _variants(lit))


def _cat(cp, cat):
    c = chr(cp)
    name = str(cat)
    neg = 'NOT_' in name
    if 'DIGIT' in name:
        r = c.isdecimal() or unicodedata.category(c) == 'Nd'
    elif 'SPACE' in name:
        r = c.isspace()
    elif 'WORD' in name:
        r = c.isalnum() or c == '_'
    else:
        raise ValueError(name)
    return r != neg


def _item(cp, it):
    if it[0] == 'lit':
        return _fold_eq(cp, it[1])
    if it[0] == 'range':
        return any(it[1] <= v <= it[2] for v in _variants(cp))
    if it[0] == 'cat':
        return _cat(cp, it[1])
    raise ValueError(it)


# ---------------------------------------------------------------- NFA --------
class NFA:
    def __init__(self):
        self.n = 0
        self.eps = {}      # state -> list of (target, tag)
        self.chars = {}    # state -> list of (atom, target, edge id)
        self.loops = {}    # loop head -> id ; back edges tagged ('back', id)
        self.ne = 0
        self.overapprox = False

    def new(self):
        self.n += 1
        return self.n

    def add_eps(self, a, b, tag=None):
        self.eps.setdefault(a, []).append((b, tag))

    def add_char(self, a, atom, b):
        self.ne += 1
        self.chars.setdefault(a, []).append((atom, b, self.ne))


def _atom_of(op, av):
    if op is sre_c.ANY:
        return Atom('any')
    if op is sre_c.LITERAL:
        return Atom('lit', av)
    if op is sre_c.NOT_LITERAL:
        return Atom('notlit', av)
    if op is sre_c.IN:
        neg = False
        items = []
        for o, a in av:
            if o is sre_c.NEGATE:
                neg = True
            elif o is sre_c.LITERAL:
                items.append(('lit', a))
            elif o is sre_c.RANGE:
                items.append(('range', a[0], a[1]))
            elif o is sre_c.CATEGORY:
                items.append(('cat', a))
            else:
                raise ValueError(o)
        return Atom('in', (neg, items))
    return None


def build(pattern, flags=None):
    tree = sre_parse.parse(pattern, FLAGS if flags is None else flags)
    nfa = NFA()
    groups = {}
    cnt = {'choice': 0, 'loop': 0}

    def seq(items, s):
        for op, av in items:
            s = one(op, av, s)
        return s

    def one(op, av, s):
        at = _atom_of(op, av)
        if at is not None:
            t = nfa.new()
            nfa.add_char(s, at, t)
            return t
        if op is sre_c.BRANCH:
            cnt['choice'] += 1
            cid = cnt['choice']
            out = nfa.new()
            for i, alt in enumerate(av[1]):
                a = nfa.new()
                nfa.add_eps(s, a, ('br', cid, i))
                e = seq(alt, a)
                nfa.add_eps(e, out, None)
            return out
        if op is sre_c.SUBPATTERN:
            g, _, _, p = av
            if g is not None:
                groups[g] = p
            return seq(p, s)
        if op in (sre_c.MAX_REPEAT, sre_c.MIN_REPEAT):
            lo, hi, p = av
            for _ in range(lo):
                s = seq(p, s)
            if hi == MAXREPEAT:
                cnt['loop'] += 1
                lid = cnt['loop']
                head = nfa.new()
                nfa.add_eps(s, head, None)
                nfa.loops[head] = lid
                body = nfa.new()
                out = nfa.new()
                # greedy: try the body first; lazy: try the exit first (order is irrelevant for ambiguity)
                nfa.add_eps(head, body, ('enter', lid))
                nfa.add_eps(head, out, ('exit', lid))
                e = seq(p, body)
                nfa.add_eps(e, head, ('back', lid))
                return out
            for i in range(hi - lo):
                cnt['choice'] += 1
                cid = cnt['choice']
                out = nfa.new()
                a = nfa.new()
                nfa.add_eps(s, a, ('opt', cid, 1))
                nfa.add_eps(s, out, ('opt', cid, 0))
                e = seq(p, a)
                nfa.add_eps(e, out, None)
                s = out
            return s
        if op in (sre_c.ASSERT, sre_c.ASSERT_NOT, sre_c.AT):
            nfa.overapprox = nfa.overapprox or op is not sre_c.AT or av not in (sre_c.AT_END, sre_c.AT_BEGINNING)
            if op is sre_c.AT:
                nfa.overapprox = True
            return s
        if op is sre_c.GROUPREF:
            nfa.overapprox = True
            return seq(groups[av], s)
        raise ValueError('unsupported regex node %s' % (op,))
    start = nfa.new()
    end = seq(tree, start)
    nfa.start, nfa.end = start, end
    return nfa


def closure_paths(nfa, p):
    """all epsilon paths from p (no empty loop iteration): yields (state, path tuple)"""
    out = []
    stack = [(p, (), frozenset())]
    while stack:
        s, path, entered = stack.pop()
        out.append((s, path))
        for i, (t, tag) in enumerate(nfa.eps.get(s, [])):
            ent = entered
            if tag is not None and tag[0] == 'back' and tag[1] in entered:
                continue          # would be an empty iteration of that loop
            if tag is not None and tag[0] == 'enter':
                ent = entered | {tag[1]}
            if len(path) > 400:
                continue
            stack.append((t, path + ((s, i),), ent))
    return out


def macro(nfa):
    """macro states = start + targets of character edges; macro edges (p, atom, pathId, q);
    accepting macro states = those with an epsilon path to nfa.end"""
    mstates = {nfa.start}
    for s, lst in nfa.chars.items():
        for at, t, eid in lst:
            mstates.add(t)
    edges = []
    accepting = set()
    for p in sorted(mstates):
        for s, path in closure_paths(nfa, p):
            if s == nfa.end:
                accepting.add(p)
            for at, t, eid in nfa.chars.get(s, []):
                edges.append((p, at, (path, eid), t))
    return sorted(mstates), edges, accepting


# ---------------------------------------------------------------- classes ----
BASE_PROBES = [0, 9, 10, 11, 13, 32, 33, 34, 36, 39, 40, 45, 46, 47, 48, 57, 59, 65, 69, 70, 71, 90, 95, 96, 97, 101, 102, 103, 122,
               127, 133, 160, 170, 180, 181, 192, 215, 220, 221, 223, 224, 247, 252, 255, 0x100, 0x131, 0x17f, 0x3a9, 0x660, 0x2028,
               0x212a, 0x3000, 0xd800, 0xfb00, 0x1f600]


def partition(atoms):
    """character classes induced by all atoms: returns (class reps list, atom -> set of class ids)"""
    probes = set(BASE_PROBES)
    for a in atoms:
        probes |= a.probes()
    sig = {}
    for cp in sorted(probes):
        k = tuple(a.test(cp) for a in atoms)
        sig.setdefault(k, cp)
    reps = sorted(sig.values())
    idx = {cp: i + 1 for i, cp in enumerate(reps)}
    amap = {}
    for ai, a in enumerate(atoms):
        amap[id(a)] = frozenset(idx[cp] for cp in reps if a.test(cp))
    return reps, amap


def nfa_accepts(mstates, edges, accepting, start, word, amap):
    cur = {start}
    for c in word:
        nxt = set()
        for (p, at, pid, q) in edges:
            if p in cur and c in amap[id(at)]:
                nxt.add(q)
        cur = nxt
        if not cur:
            return False
    return bool(cur & accepting)


# ---------------------------------------------------------------- samples ----
WS_POOL = [' ', '\n', '\t', '\r\n', '  ', ' \n ', '\n\t', '\r', '\x0b', ' ', ' ']


def samples(pattern, rng, n=20):
    """random strings built along the sre parse tree of `pattern` (look-around ignored, so a sample need not
    match): every `\\s` position draws from a pool of whitespace realisations, every branch / optional part /
    repetition count is chosen at random.  Used to feed the lexer inputs shaped by its own rules."""
    tree = sre_parse.parse(pattern, FLAGS)
    out = set()

    def item_char(it):
        if it[0] == 'lit':
            c = chr(it[1])
            return rng.choice([c, c.upper(), c.lower()])
        if it[0] == 'range':
            return chr(rng.randint(it[1], min(it[2], it[1] + 40)))
        name = str(it[1])
        if 'NOT_' in name:
            return rng.choice(['x', '1', ' ', ';', "'"])
        if 'DIGIT' in name:
            return rng.choice('0179')
        if 'SPACE' in name:
            return rng.choice(WS_POOL)
        return rng.choice(['a', 'Z', '9', '_', 'é'])

    def gen(items, groups):
        res = []
        for op, av in items:
            at = _atom_of(op, av)
            if at is not None:
                if at.kind == 'any':
                    res.append(rng.choice(['x', ' ', ';', "'", '*', '-']))
                elif at.kind == 'lit':
                    c = chr(at.arg)
                    res.append(rng.choice([c, c.upper(), c.lower()]))
                elif at.kind == 'notlit':
                    res.append(rng.choice([c for c in ['x', ' ', ';', '\n', '1'] if ord(c) != at.arg]))
                else:
                    neg, its = at.arg
                    if neg:
                        cand = [c for c in ['x', ' ', ';', '\n', '1', '"', "'", '*', '/', '-'] if at.test(ord(c))]
                        res.append(rng.choice(cand) if cand else 'x')
                    else:
                        res.append(item_char(rng.choice(its)))
            elif op is sre_c.BRANCH:
                res.append(gen(rng.choice(av[1]), groups))
            elif op is sre_c.SUBPATTERN:
                g, _, _, p = av
                s = gen(p, groups)
                if g is not None:
                    groups[g] = s
                res.append(s)
            elif op in (sre_c.MAX_REPEAT, sre_c.MIN_REPEAT):
                lo, hi, p = av
                k = rng.randint(lo, min(hi, lo + 3))
                res.append(''.join(gen(p, groups) for _ in range(k)))
            elif op in (sre_c.ASSERT, sre_c.ASSERT_NOT, sre_c.AT):
                pass
            elif op is sre_c.GROUPREF:
                g = groups.get(av, '')
                res.append(rng.choice([g, g, g.swapcase()]))      # the rules are compiled case-insensitively: so is a back-reference
            else:
                raise ValueError('unsupported regex node %s' % (op,))
        return ''.join(res)
    for _ in range(n * 3):
        groups = {}
        x = gen(tree, groups)
        out.add(x)
        # a rule with a back-reference: the referenced text once more behind the match (in its exact spelling and in the
        # other letter case) - where does the token end when the closer occurs again?
        for g in groups.values():
            if g and ('\\%d' % 1) in pattern:
                out.add(x + ' y ' + g)
                out.add(x[:-len(g)] + g.swapcase() + ' y ' + g if x.endswith(g) else x + ' ' + g.swapcase() + ' y ' + g)
                break
        if len(out) >= n:
            break
    return sorted(out)
