"""Deterministic scheduler for real threads going through the lexer singleton's
creation and initialisation (C20).  No source hooks: a sys.settrace gate on
sqlparse/lexer.py frames plus an instrumented lock object assigned to
Lexer._lock.  Exactly one thread runs at a time; "blocked on the lock" is
observed, never timed."""
import sys
import threading

NDICTS = 0        # set by the check: number of dictionaries default_initialization registers
OPAQUE = False
FUNCS = ('get_default_instance', 'default_initialization', 'clear', 'set_SQL_REGEX', 'add_keywords',
         'tokenize', 'get_tokens')
TEXT = 'select a, b from t where x = 1; insert into t values (1)'


class Hang(Exception):
    pass


class ILock:
    """instrumented replacement for Lexer._lock"""

    def __init__(self, sched):
        self.sched = sched
        self.owner = None

    def __enter__(self):
        self.acquire()
        return self

    def __exit__(self, *a):
        self.release()

    def acquire(self, *a, **k):
        me = self.sched.current()
        if me is None:        # not a scheduled thread (harness itself)
            self.owner = 'harness'
            return True
        self.sched.gate(me, 'lock', 'acquire')
        while self.owner is not None:
            self.sched.gate(me, 'lock', 'blocked', blocked=True)
        self.owner = me
        self.sched.phase[me] = 'in'
        return True

    def release(self):
        me = self.sched.current()
        self.owner = None
        if me is not None:
            self.sched.gate(me, 'lock', 'released')

    def locked(self):
        return self.owner is not None


class Sched:
    def __init__(self, nthreads, text=TEXT, jobs=None, fresh=True):
        """jobs: optional list of callables (one per thread) run instead of tokenize(text);
        fresh: reset the default lexer so that the threads make the process's first call"""
        self.n = nthreads
        self.text = text
        self.jobs = jobs
        self.fresh = fresh
        self.go = [threading.Semaphore(0) for _ in range(nthreads)]
        self.back = threading.Semaphore(0)
        self.tls = threading.local()
        self.events = []          # (thread, func, where, projection)
        self.status = ['ready'] * nthreads     # ready | blocked | done
        self.results = [None] * nthreads
        self.phase = ['start'] * nthreads
        self.lock = ILock(self)
        self.watchdog = 20.0

    def current(self):
        return getattr(self.tls, 'me', None)

    # ---- projection of the shared state (DESIGN 4.2) -----------------------
    def project(self):
        from sqlparse.lexer import Lexer
        inst = Lexer.__dict__.get('_default_instance', None)
        d = {'inst': inst is not None, 'hasRegex': False, 'hasKw': False, 'regexSet': False, 'nDicts': 0,
             'owner': -1 if self.lock.owner is None else (self.lock.owner if isinstance(self.lock.owner, int) else -2)}
        if inst is not None:
            r = inst.__dict__.get('_SQL_REGEX', None)
            k = inst.__dict__.get('_keywords', None)
            d['hasRegex'] = r is not None
            d['hasKw'] = k is not None
            d['regexSet'] = bool(r)
            if isinstance(k, (list, tuple)):
                d['nDicts'] = len(k)
            else:
                # another representation of the registered dictionaries than the list this projection knows:
                # completeness cannot be read off the state; only the threads' results are judged (reported as drift)
                global OPAQUE
                OPAQUE = True
                d['nDicts'] = NDICTS if k else 0
        return d

    # ---- worker side ---------------------------------------------------------
    def gate(self, me, func, where, blocked=False):
        self.status[me] = 'blocked' if blocked else 'ready'
        if func == 'get_tokens':
            self.phase[me] = 'use'
        elif func == 'lock' and where == 'released':
            self.phase[me] = 'out'
        elif func == 'lock' and where == 'acquire':
            self.phase[me] = 'wait'
        self.events.append({'t': me, 'f': func, 'w': str(where), 'blocked': blocked, 's': self.project(),
                            'phase': list(self.phase)})
        self.back.release()
        if not self.go[me].acquire(timeout=self.watchdog):
            raise Hang('thread %d never resumed' % me)
        if func == 'lock' and where == 'released':
            pass

    def _tracer(self, frame, event, arg):
        code = frame.f_code
        if (event == 'call' and self.jobs is not None and code.co_name in ('run', 'process')
                and ('sqlparse/engine/filter_stack' in code.co_filename or ('sqlparse/filters/' in code.co_filename
                                                                                  and 'filters/tokens' not in code.co_filename))):
            me = self.current()

            def local2(fr, ev, a):
                if ev == 'line':
                    self.gate(me, fr.f_code.co_name, fr.f_lineno)
                return local2
            return local2
        if event == 'call' and code.co_filename.endswith('sqlparse/lexer.py') and code.co_name in FUNCS:
            me = self.current()
            if code.co_name == 'get_tokens':
                st = {'first': True}

                def once(fr, ev, a):
                    if ev == 'line' and st['first']:
                        st['first'] = False
                        self.gate(me, 'get_tokens', fr.f_lineno)
                    return None
                return once

            def local(fr, ev, a):
                if ev == 'line':
                    self.gate(me, fr.f_code.co_name, fr.f_lineno)
                return local
            return local
        return None

    def _worker(self, me):
        self.tls.me = me
        from sqlparse import lexer
        # initial gate: nothing executed yet
        self.gate(me, 'start', 0)
        sys.settrace(self._tracer)
        try:
            if self.jobs is not None:
                self.results[me] = self.jobs[me]()
            else:
                self.results[me] = [(str(tt), v) for tt, v in lexer.tokenize(self.text)]
        except BaseException as e:  # noqa
            self.results[me] = 'EXC:' + type(e).__name__
        finally:
            sys.settrace(None)
            self.status[me] = 'done'
            self.phase[me] = 'done'
            self.events.append({'t': me, 'f': 'end', 'w': 'end', 'blocked': False, 's': self.project(),
                                'phase': list(self.phase)})
            self.back.release()

    # ---- controller ------------------------------------------------------------
    def runnable(self):
        out = []
        for t in range(self.n):
            if self.status[t] == 'done':
                continue
            if self.status[t] == 'blocked' and self.lock.owner is not None:
                continue
            out.append(t)
        return out

    def run(self, chooser):
        """chooser(sched, runnable, step_index, last) -> thread id; returns events"""
        from sqlparse.lexer import Lexer
        saved_lock = Lexer._lock
        saved_inst = Lexer._default_instance
        Lexer._lock = self.lock
        if self.fresh:
            Lexer._default_instance = None
        threads = [threading.Thread(target=self._worker, args=(t,), daemon=True) for t in range(self.n)]
        try:
            for th in threads:
                th.start()
            for _ in range(self.n):          # every thread reaches its initial gate
                if not self.back.acquire(timeout=self.watchdog):
                    raise Hang('start')
            step = 0
            last = None
            self.choices = []
            while True:
                r = self.runnable()
                if not r:
                    if any(s != 'done' for s in self.status):
                        raise Hang('deadlock: %s' % (self.status,))
                    break
                t = chooser(self, r, step, last)
                if t not in r:
                    t = r[0]
                self.choices.append(t)
                self.go[t].release()
                if not self.back.acquire(timeout=self.watchdog):
                    raise Hang('thread %d did not reach a gate' % t)
                last = t
                step += 1
                if step > 200000:
                    raise Hang('too many steps')
            for th in threads:
                th.join(timeout=self.watchdog)
        finally:
            Lexer._lock = saved_lock
            Lexer._default_instance = saved_inst
        return self.events


def nonpreemptive(preempt):
    """chooser: run the current thread until it cannot continue; `preempt` maps a step
    index to the thread to switch to at that step"""
    def ch(s, runnable, step, last):
        if step in preempt and preempt[step] in runnable:
            return preempt[step]
        if last in runnable:
            return last
        return runnable[0]
    return ch


def from_choices(seq):
    """chooser following a TLC-generated schedule at state-change granularity: each
    entry names the thread to run until the projected state changes"""
    it = {'i': 0, 'cur': None, 'sig': None}

    def ch(s, runnable, step, last):
        sig = (tuple(sorted(s.project().items())), tuple(s.phase))
        if it['cur'] is not None and it['cur'] in runnable and sig == it['sig']:
            return it['cur']
        while it['i'] < len(seq):
            t = seq[it['i']]
            it['i'] += 1
            if t in runnable:
                it['cur'], it['sig'] = t, sig
                return t
        it['cur'] = None
        return last if last in runnable else runnable[0]
    return ch


def abstract_trace(events, n):
    """collapse line-level events to distinct abstract states (1-based thread ids for TLA+)"""
    out = []
    last = None
    for e in events:
        sig = (tuple(sorted(e['s'].items())), tuple(e['phase']))
        if sig != last:
            s = dict(e['s'])
            s['owner'] = (s['owner'] + 1) if s['owner'] >= 0 else 0
            out.append({'t': e['t'] + 1, 's': s, 'phase': list(e['phase'])})
            last = sig
    return out


def change_points(events):
    """step indices (controller steps) after which the abstract state differs"""
    pts = []
    last = None
    for i, e in enumerate(events):
        sig = (tuple(sorted(e['s'].items())), tuple(e['phase']))
        if sig != last:
            pts.append(i)
            last = sig
    return pts


def random_chooser(rng, switch=0.2):
    def ch(s, runnable, step, last):
        if last in runnable and rng.random() > switch:
            return last
        return rng.choice(runnable)
    return ch
