"""Shape projection of parse results and text-level respelling (C11)."""
from .core import cps
from . import project

WS_FILL = [' ', '  ', '\t', '\n', '\r\n', ' \n ', '\n\n', '\t ', '    ', '\n\n\n\n\n', ' \t \n  \n ', '        ']


def shape(text):
    import sqlparse
    from sqlparse import tokens as T
    out = {'n': 0, 'types': [], 'bounds': [], 'shape': [], 'exc': ''}
    try:
        stmts = sqlparse.parse(text)
    except Exception as e:  # noqa
        out['exc'] = type(e).__name__
        return out
    out['n'] = len(stmts)
    for s in stmts:
        try:
            out['types'].append(s.get_type())
        except Exception as e:  # noqa
            out['types'].append('<<%s>>' % type(e).__name__)
        nsig = 0
        # iterative pre-order
        stack = [('n', s)]
        while stack:
            kind, t = stack.pop()
            if kind == ')':
                out['shape'].append(')')
                continue
            if getattr(t, 'is_group', False):
                out['shape'].append('(' + type(t).__name__)
                stack.append((')', None))
                for c in reversed(t.tokens):
                    stack.append(('n', c))
            else:
                if t.ttype in T.Whitespace:
                    continue
                nsig += 1
                wordy = t.ttype in T.Keyword or ((t.ttype is T.Operator.Comparison or t.ttype is T.Name.Builtin) and t.value[:1].isalpha())
                v = ' '.join(t.value.upper().split()) if wordy else t.value
                out['shape'].append(str(t.ttype) + ':' + v)
        out['bounds'].append(nsig)
    return out


def respell(text, rng, casing=True, gaps=True):
    """replace every whitespace run between tokens (and inside multi-word keywords)
    by another non-empty whitespace string; re-case keywords.  Driven by the real
    lexer's tokenisation of the original text."""
    from sqlparse import lexer, tokens as T
    import re
    toks = list(lexer.tokenize(text))
    out = []
    i = 0
    n = len(toks)
    while i < n:
        tt, v = toks[i]
        if tt in T.Whitespace:
            j = i
            while j < n and toks[j][0] in T.Whitespace:
                j += 1
            run = ''.join(x[1] for x in toks[i:j])
            out.append(rng.choice(WS_FILL) if gaps else run)
            i = j
            continue
        if tt in T.Keyword or tt is T.Operator.Comparison and v[:1].isalpha() or tt is T.Name.Builtin and ' ' in v:
            w = v
            if gaps:
                w = re.sub(r'\s+', lambda m: rng.choice(WS_FILL), w)
            if casing:
                mode = rng.randrange(4)
                if mode == 0:
                    w = w.upper()
                elif mode == 1:
                    w = w.lower()
                elif mode == 2:
                    w = w.capitalize()
                else:
                    w = ''.join(c.upper() if rng.random() < 0.5 else c.lower() for c in w)
            out.append(w)
        else:
            out.append(v)
        i += 1
    return ''.join(out)
