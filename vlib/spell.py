"""Concretisation: abstract token labels -> spellings (DESIGN 4.1).  Pools are
verified against the working tree before use: a spelling that does not lex to
its intended splitter kind is reported as drift (never an alarm by itself) and KEPT."""
import random

from .core import REPO  # noqa
from .project import splitter_kind

POOLS = {
    'name': ['foo', 'bar', 't1', 'x', 'col_a', '"q n"', '`b`', 'é1', '_v', 'a$b', '"se;mi"', '"BEGIN"',
             # qualified names whose last part is a delimiter word (a name behind a period is a Name whatever it spells)
             'new.end', 'x.begin', 'r.if', 'q.loop', 's.for', 'o.declare'],
    'num': ['1', '42', '3.5', '0x1F', '1e5'],
    'str': ["'s'", "'it''s; x'", "';'", "'END'", "'/* '", "'--'", "$$ ; $$", "$t$ begin; $t$"],
    'kw': ['from', 'where', 'and', 'set', 'into', 'values', 'table', 'on', 'or', 'not', 'FROM', 'Where', 'null'],
    'dml': ['select', 'insert', 'update', 'delete', 'SELECT', 'Insert', 'drop', 'alter', 'truncate', 'DROP', 'merge', 'commit'],
    'when': ['when', 'WHEN'], 'then': ['then', 'THEN'], 'else': ['else', 'ELSE', 'elsif'],
    'loop': ['loop', 'LOOP'], 'do': ['do', 'DO'], 'in': ['in', 'IN'],
    'function': ['function', 'procedure', 'trigger', 'FUNCTION'], 'returns': ['returns', 'RETURNS'],
    'as': ['as', 'AS', 'is'], 'type': ['varchar', 'numeric'],
    'assign': [':='], 'cmp': ['=', '<', '>=', '<>'],
    'lp': ['('], 'rp': [')'], 'semi': [';'],
    'ws': [' ', '\t', ' '], 'nl': ['\n', '\r\n', '\r'],
    'cmt1': ['-- c\n', '--\n', '-- x; y\r\n', '# c\n', '-- begin\n'],
    'cmtm': ['/* c */', '/* ; */', '/**/', '/* end\n */', '/*+ hint */', '--+ h\n'],
    'create': ['create', 'CREATE', 'Create'],
    'createorreplace': ['create or replace', 'CREATE OR REPLACE'],
    'declare': ['declare', 'DECLARE'], 'begin': ['begin', 'BEGIN', 'Begin'],
    'end': ['end', 'END'], 'if': ['if', 'IF'], 'for': ['for', 'FOR'],
    'while': ['while', 'WHILE'], 'case': ['case', 'CASE'],
    'endif': ['end if', 'END IF'], 'endloop': ['end loop', 'END LOOP'],
    'endwhile': ['end while', 'END WHILE'],
    'go': ['GO', 'GO 2'],
}

INNER_WS = [' ', ' ', '  ', '\n', '\t', '\r\n', ' \n ', '\n\t']


def vary_inner_ws(s, rng):
    """a multi-word keyword may be written with any whitespace between its words"""
    if ' ' not in s or s[:1] in '"\'`$-/#':
        return s
    return ''.join(rng.choice(INNER_WS) if c == ' ' else c for c in s)


_checked = {}


def checked_pools():
    """lex every spelling in delimited context; keep those giving exactly one
    significant token of the intended kind"""
    if _checked:
        return _checked
    from sqlparse import lexer
    bad = []
    from .pools_kinds import LABEL_KIND
    for lab, sp in POOLS.items():
        ok = []
        for s in sp:
            toks = list(lexer.tokenize(' ' + s + ' '))
            kinds = [splitter_kind(tt, v) for tt, v in toks]
            sig = [k for k in kinds if k not in ('ws', 'nl')]
            want = LABEL_KIND[lab]
            if lab in ('ws', 'nl'):
                ok.append(s)
            elif sig == [want] or (lab == 'name' and sig and set(sig) == {want}):
                ok.append(s)
            else:
                # every spelling of the committed pools has its intended kind on the tree they were written for.  One that
                # has not on THIS tree is kept (the script is judged through its semicolons, see splitfam.tok_trace) and
                # reported as drift: dropping it would hide exactly the inputs a changed lexer treats differently.
                bad.append((lab, s, sig))
                ok.append(s)
        _checked[lab] = ok
    _checked['__bad__'] = bad
    return _checked


def spell(hist, rng, canonical=False):
    """hist: list of {k, lab}; returns text"""
    pools = checked_pools()
    parts = []
    prev = None
    for h in hist:
        lab = h['lab']
        pool = pools[lab]
        s = pool[0] if canonical else vary_inner_ws(rng.choice(pool), rng)
        gapish = lab in ('ws', 'nl', 'cmt1', 'cmtm')
        if prev is not None and not gapish and not prev['gap']:
            tight = (lab in ('semi', 'rp') or prev['lab'] == 'lp')
            if not tight or (not canonical and rng.random() < 0.3):
                parts.append(' ')
            elif lab == 'semi' and prev['lab'] in ('num',):
                pass
        if s.startswith('#') and parts and (parts[-1][-1:].isalnum() or parts[-1][-1:] in '_$#'):
            parts.append(' ')        # `word# c` is a NAME (word characters include # and $): a hash comment needs a gap
        parts.append(s)
        prev = {'lab': lab, 'gap': gapish and (lab != 'cmtm' or True)}
    return ''.join(parts)
