"""Shared machinery of the splitter family (C04, C05, C17): behaviours from
ScriptGen/SplitLockstep (TLC), concretisation, recording of real split()/parse()
runs as traces for TraceSplit."""
import random

from . import tlc
from .core import cps, MachineryError
from .project import splitter_kind, leaves
from .spell import spell, checked_pools

GAPK = ('ws', 'nl', 'cmt1', 'cmtm')


def lockstep_cfg(allow, depth, maxlen=100000, emit=False, view=True, inv=True, softlen=None, minlen=0,
                 reset_complete=True, fresh=False):
    return """SPECIFICATION Spec
CONSTANTS
  Allow = {%s}
  MaxDepth = %d
  MaxLen = %d
  SoftLen = %d
  MinLen = %d
  Emit = %s
  ResetComplete = %s
%s
CONSTRAINT Bound
%s
INVARIANT PrintDone
""" % (', '.join('"%s"' % a for a in sorted(allow)), depth, maxlen,
       softlen if softlen is not None else maxlen, minlen,
       'TRUE' if emit else 'FALSE', 'TRUE' if reset_complete else 'FALSE',
       ('INVARIANT PrintBad' if inv else '') + ('\nINVARIANT FreshAgrees' if fresh else ''), 'VIEW View' if view else '')


def model_check(ctx, allow, depth, label):
    """exhaustive lock-step run (scripts of any length, VIEW hides the script).
    Returns (result, list of witnesses {hist, bad}) - every reachable bad state is
    reported, not only the first."""
    res = tlc.run(ctx.workdir, 'SplitLockstep', lockstep_cfg(allow, depth),
                  workers=4, timeout=600, label=label)
    ctx.add_tlc(res, '%s Allow=%s depth<=%d' % (label, sorted(allow), depth))
    return res, res.printed


def emit_scripts(ctx, allow, depth, label, simulate=None, maxlen=40, seed=0, exhaustive_len=None, softlen=None, minlen=0):
    """behaviours out of TLC (S->C channel): list of {hist:[{k,lab,fin,..}], bad}"""
    if exhaustive_len is not None:
        cfg = lockstep_cfg(allow, depth, maxlen=exhaustive_len, emit=True, view=False, inv=False, softlen=softlen)
        res = tlc.run(ctx.workdir, 'SplitLockstep', cfg, workers=1, timeout=900,
                      label=label, coverage=False)
    else:
        cfg = lockstep_cfg(allow, depth, maxlen=maxlen, emit=True, view=False, inv=False,
                           softlen=softlen if softlen is not None else max(4, maxlen - 3 * depth), minlen=minlen)
        res = tlc.run(ctx.workdir, 'SplitLockstep', cfg, workers=1, timeout=900,
                      simulate='num=%d' % simulate, depth=maxlen + 2, seed=seed,
                      label=label, coverage=False)
    ctx.add_tlc(res, label + (' exhaustive len<=%d' % exhaustive_len if exhaustive_len else ' simulate %d' % simulate))
    return res.printed


def real_pieces(text):
    """(kinds, piece index per lexer token, npieces, nsplit) from the real code"""
    import sqlparse
    from sqlparse import lexer
    toks = list(lexer.tokenize(text))
    kinds = [splitter_kind(tt, v) for tt, v in toks]
    stmts = sqlparse.parse(text)
    spans = []
    pos = 0
    for s in stmts:
        n = sum(len(t.value) for t in leaves(s))
        spans.append((pos, pos + n))
        pos += n
    piece = []
    off = 0
    si = 0
    for tt, v in toks:
        while si < len(spans) and off >= spans[si][1]:
            si += 1
        if si < len(spans) and spans[si][0] <= off < spans[si][1]:
            piece.append(si + 1)
        else:
            piece.append(0)
        off += len(v)
    nsplit = len(sqlparse.split(text))
    return kinds, piece, len(stmts), nsplit


def triggers(kinds):
    """constructs present in a kind sequence (for attributing known findings)"""
    sig = [k for k in kinds if k not in GAPK]
    t = set()
    if 'create' in sig:
        after = sig[sig.index('create'):]
        if 'for' in after and 'endloop' in after:
            t.add('T_for_endloop')
        if 'while' in after and 'endloop' in after:
            t.add('T_while_endloop')
        if 'declare' in after:
            t.add('T_declare')
        for i in range(len(after) - 1):
            if after[i] == 'end' and after[i + 1] == 'case':
                t.add('T_end_case')
    # CASE ... END at a point where CASE does not raise the level (outside a CREATE body)
    depth_begin = 0
    is_create = False
    for i, k in enumerate(sig):
        if k == 'create':
            is_create = True
        if k == 'begin':
            depth_begin += 1
        if k == 'case' and not (is_create and depth_begin > 0):
            if 'end' in sig[i:]:
                t.add('T_case_end_unraised')
    return sorted(t)


def tok_trace(tid, text, hist=None, fallback=False):
    kinds, piece, npieces, nsplit = real_pieces(text)
    tr = {'id': tid, 'mode': 'tok', 'kinds': kinds, 'piece': piece, 'npieces': npieces,
          'nsplit': nsplit, 'annotated': False, 'fin': [False] * len(kinds),
          'opaque_broken': False, 'npieces_orig': npieces}
    if hist is not None:
        # transfer the FINAL-semicolon annotation to the real token list through
        # the sequence of significant tokens
        sig_abs = [h for h in hist if h['k'] not in GAPK]
        sig_idx = [i for i, k in enumerate(kinds) if k not in GAPK]
        # a run of `other` tokens (a qualified name a.b is three of them) counts as one: they are neutral for the splitter
        def squeeze(ks):
            out = []
            for k in ks:
                if not (k == 'other' and out and out[-1] == 'other'):
                    out.append(k)
            return out
        exact = [h['k'] for h in sig_abs] == [kinds[i] for i in sig_idx]
        if not exact and squeeze([h['k'] for h in sig_abs]) == squeeze([kinds[i] for i in sig_idx]):
            semi_abs = [h for h in sig_abs if h['k'] == 'semi']
            semi_idx = [i for i in sig_idx if kinds[i] == 'semi']
            for h, i in zip(semi_abs, semi_idx):
                tr['fin'][i] = bool(h['fin'])
            tr['annotated'] = True
            return tr
        if not exact:
            # the spelling did not lex to the intended kinds.  The annotation that matters (which `;` are final) can
            # still be carried over through the semicolons alone when there are as many `;` tokens as intended: then
            # the text is judged anyway - a lexer that fuses or re-types two of the intended tokens must not make the
            # script invisible.  (Other counts: a `;` ended up inside another token; nothing can be said.)
            semi_abs = [h for h in sig_abs if h['k'] == 'semi']
            semi_idx = [i for i in sig_idx if kinds[i] == 'semi']
            if not fallback or len(semi_abs) != len(semi_idx):
                return None
            for h, i in zip(semi_abs, semi_idx):
                tr['fin'][i] = bool(h['fin'])
            tr['annotated'] = True
            tr['fallback'] = True
            return tr
        for h, i in zip(sig_abs, sig_idx):
            tr['fin'][i] = bool(h['fin'])
        tr['annotated'] = True
    return tr


def replay_tok(pid, rec):
    """re-execute one stored token-level case against the current tree"""
    from .core import Ctx
    from . import tracecheck
    import shutil
    case = rec['case']
    ctx = Ctx(pid, 'quick', 'model_checking')
    tr = tok_trace(0, case['text'])
    if case.get('fin') and len(case['fin']) == len(tr['kinds']) and case.get('kinds') == tr['kinds']:
        tr['fin'] = case['fin']
        tr['annotated'] = True
    rej = tracecheck.validate(ctx, 'TraceSplit', [tr], chunks=1)
    shutil.rmtree(ctx.workdir, ignore_errors=True)
    if rej:
        print('VIOLATION property=%s replay=%s' % (pid, rec.get('replay', '?')))
        print('  still fails: %s' % (rej,))
        return 1
    print('replay passes on the current tree (annotation %s)' % ('applied' if tr['annotated'] else 'not applicable: tokens changed'))
    return 0


PROBES = [
    [('name', 'other', False), ('semi', 'semi', True), ('name', 'other', False), ('semi', 'semi', True)],
    [('begin', 'begin', False), ('semi', 'semi', True), ('name', 'other', False), ('semi', 'semi', True),
     ('dml', 'kw', False), ('lp', 'lp', False), ('semi', 'semi', False), ('rp', 'rp', False), ('semi', 'semi', True),
     ('name', 'other', False)],
    [('dml', 'kw', False), ('case', 'case', False), ('when', 'kw', False), ('name', 'other', False), ('end', 'end', False),
     ('semi', 'semi', True), ('if', 'if', False), ('name', 'other', False), ('semi', 'semi', True),
     ('name', 'other', False), ('semi', 'semi', True)],
    # CREATE TABLE IF NOT EXISTS t; DROP ... ; SELECT ... FOR UPDATE;   (IF / FOR outside a body must stay neutral)
    [('create', 'create', False), ('kw', 'kw', False), ('if', 'if', False), ('kw', 'kw', False), ('name', 'other', False),
     ('semi', 'semi', True), ('name', 'other', False), ('semi', 'semi', True), ('dml', 'kw', False), ('for', 'for', False),
     ('kw', 'kw', False), ('semi', 'semi', True), ('name', 'other', False), ('semi', 'semi', True)],
]


def with_probe(hist, i):
    """append a fixed plain follow-up script (abstract tokens) that exposes state
    leaking out of the statements before it"""
    p = PROBES[i % len(PROBES)]
    return list(hist) + [{'k': k, 'lab': lab, 'fin': fin} for lab, k, fin in p]


def cover_scripts(ctx, allow, depth, label, transitions=False, memory=0):
    """state cover (or transition cover) of the lock-step product graph, each
    completed to a well-formed script by ScriptGen!Closure; memory=1/2: the graph whose
    states also remember the last one / two tokens (pair / triple cover of moves)"""
    cfg = lockstep_cfg(allow, depth, inv=False)
    if memory:
        cfg = cfg.replace('VIEW View', 'VIEW View%d' % memory)
    cfg = cfg.replace('INVARIANT PrintDone', 'ACTION_CONSTRAINT PrintTransCover' if transitions else 'INVARIANT PrintStateCover')
    res = tlc.run(ctx.workdir, 'SplitLockstep', cfg, workers=1, timeout=900, label=label, coverage=False)
    ctx.add_tlc(res, label + (' transition cover' if transitions else ' state cover'))
    return res.printed
