"""Abstract SQL programs from SqlGen.tla: annotation spans, concretisation
(label -> spelling, gap fillers), emission through TLC."""
import random

from . import tlc, extract
from .core import MachineryError

# ---- spelling pools (verified against the working tree before use) ----------
WORD, PUNCT, OPER = 'word', 'punct', 'oper'

POOLS = {
    # label: (class, [spellings], expected token type prefix or None)
    'select': (WORD, ['select', 'SELECT', 'Select'], 'Token.Keyword.DML'),
    'distinct': (WORD, ['distinct', 'DISTINCT'], 'Token.Keyword'),
    'from': (WORD, ['from', 'FROM'], 'Token.Keyword'),
    'where': (WORD, ['where', 'WHERE', 'Where'], 'Token.Keyword'),
    'groupby': (WORD, ['group by', 'GROUP BY'], 'Token.Keyword'),
    'having': (WORD, ['having', 'HAVING'], 'Token.Keyword'),
    'orderby': (WORD, ['order by', 'ORDER BY'], 'Token.Keyword'),
    'limit': (WORD, ['limit', 'LIMIT'], 'Token.Keyword'),
    'setop': (WORD, ['union', 'union all', 'except', 'UNION', 'UNION ALL', 'except all', 'EXCEPT'], None),
    'jointype': (WORD, ['join', 'left join', 'inner join', 'left outer join', 'cross join', 'natural join',
                        'JOIN', 'LEFT OUTER JOIN', 'full outer join'], 'Token.Keyword'),
    'on': (WORD, ['on', 'ON'], 'Token.Keyword'),
    'and': (WORD, ['and', 'AND'], 'Token.Keyword'),
    'or': (WORD, ['or', 'OR'], 'Token.Keyword'),
    'not': (WORD, ['not', 'NOT'], 'Token.Keyword'),
    'between': (WORD, ['between', 'BETWEEN'], 'Token.Keyword'),
    'in': (WORD, ['in', 'IN'], 'Token.Keyword'),
    'is': (WORD, ['is', 'IS'], 'Token.Keyword'),
    'null': (WORD, ['null', 'NULL'], 'Token.Keyword'),
    'notnull': (WORD, ['not null', 'NOT NULL'], 'Token.Keyword'),
    'like': (WORD, ['like', 'LIKE', 'ilike', 'not like'], 'Token.Operator.Comparison'),
    'as': (WORD, ['as', 'AS', 'As'], 'Token.Keyword'),
    'case': (WORD, ['case', 'CASE'], 'Token.Keyword'),
    'when': (WORD, ['when', 'WHEN'], 'Token.Keyword'),
    'then': (WORD, ['then', 'THEN'], 'Token.Keyword'),
    'else': (WORD, ['else', 'ELSE'], 'Token.Keyword'),
    'end': (WORD, ['end', 'END'], 'Token.Keyword'),
    'insert': (WORD, ['insert', 'INSERT'], 'Token.Keyword.DML'),
    'into': (WORD, ['into', 'INTO'], 'Token.Keyword'),
    'values': (WORD, ['values', 'VALUES'], 'Token.Keyword'),
    'update': (WORD, ['update', 'UPDATE'], 'Token.Keyword.DML'),
    'set': (WORD, ['set', 'SET'], 'Token.Keyword'),
    'delete': (WORD, ['delete', 'DELETE'], 'Token.Keyword.DML'),
    'create': (WORD, ['create', 'CREATE'], 'Token.Keyword.DDL'),
    'drop': (WORD, ['drop', 'DROP'], 'Token.Keyword.DDL'),
    'table': (WORD, ['table', 'TABLE'], 'Token.Keyword'),
    'with': (WORD, ['with', 'WITH'], 'Token.Keyword.CTE'),
    'returning': (WORD, ['returning', 'RETURNING'], 'Token.Keyword'),
    'over': (WORD, ['over', 'OVER'], 'Token.Keyword'),
    'partition': (WORD, ['partition', 'PARTITION'], 'Token.Keyword'),
    'by': (WORD, ['by', 'BY'], 'Token.Keyword'),
    'primarykey': (WORD, ['primary key', 'PRIMARY KEY'], 'Token.Keyword'),
    'orddir': (WORD, ['asc', 'desc', 'DESC', 'asc nulls first', 'desc nulls last'], 'Token.Keyword.Order'),
    'name': (WORD, ['foo', 'bar', 't1', 'x', 'col_a', 'é1', '_v', 'a$b', 'Tbl', 'zz9'], 'Token.Name'),
    'dqname': (WORD, ['"q n"', '"Sel"', '"a.b"', '"from"', '"x;y"', '"é"', '"two \r\nlines\\q"'], 'Token.Literal.String.Symbol'),
    'btname': (WORD, ['`b`', '`b c`', '`select`', '`x.y`'], 'Token.Name'),
    'alias': (WORD, ['a1', 'al', 'r', 'tot', '"Al 1"', '`ba`', 'x2', '"\'net\'"', '`"bq"`'], None),
    'fname': (WORD, ['f', 'my_func', 'calc2', 'foo_fn'], 'Token.Name'),
    'num': (WORD, ['1', '42', '3.5', '0', '100'], 'Token.Literal.Number'),
    'str': (WORD, ["'s'", "'it''s'", "'a;b'", "''", "'x y'", "'2020-01-01'", "'C:\\temp\\logs \r\nD:\\x'", "'l1  \n l2'", "'ab[...]'", "'abcd\u2026'", "'wait...'"],
            'Token.Literal.String.Single'),
    'ph': (WORD, ['?', '%s', ':p1', '$1', '%(nm)s'], 'Token.Name.Placeholder'),
    'typename': (WORD, ['integer', 'text', 'varchar', 'numeric'], None),
    'builtin': (WORD, ['date', 'timestamp', 'DATE', 'TIMESTAMP'], None),
    'interval': (WORD, ['interval', 'INTERVAL'], None),
    'unit': (WORD, ['day', 'hour', 'month', 'DAY', 'year'], 'Token.Keyword'),
    'op': (OPER, ['+', '-', '/', '||', '%'], 'Token.Operator'),
    'sign': (OPER, ['-', '+'], 'Token.Operator'),
    'cmpop': (OPER, ['=', '<', '>', '<=', '>=', '<>', '!='], 'Token.Operator.Comparison'),
    'eq': (OPER, ['='], 'Token.Operator.Comparison'),
    'star': (OPER, ['*'], 'Token.Wildcard'),
    'dot': (PUNCT, ['.'], 'Token.Punctuation'),
    'comma': (PUNCT, [','], 'Token.Punctuation'),
    'lp': (PUNCT, ['('], 'Token.Punctuation'),
    'rp': (PUNCT, [')'], 'Token.Punctuation'),
    'lbr': (PUNCT, ['['], 'Token.Punctuation'),
    'rbr': (PUNCT, [']'], 'Token.Punctuation'),
    'dcolon': (PUNCT, ['::'], 'Token.Punctuation'),
    'semi': (PUNCT, [';'], 'Token.Punctuation'),
    'colon': (PUNCT, [':'], 'Token.Punctuation'),
    'materialized': (WORD, ['materialized', 'MATERIALIZED'], None),
    'go': (WORD, ['GO', 'go', 'Go'], 'Token.Keyword'),
}

GAPS = {
    'blank': [' '],
    'ws': [' ', '  ', '\t', '\n', '\r\n', ' \n  ', '\n\n'],
    'cmt': [' ', '\n', ' /* c */ ', '/* c */', ' -- c\n', ' /* a\n b */ ', '\n-- x; y\n', ' /*+ h */ ', ' ', ' ', ' # c\n', ' /* x **/ ',
            ' --\n', ' -- c.\n'],
    'cmtx': [' ', ' /* a \r\n b */ ', ' /* t  \n*/ ', '\n', ' -- c\r\n', " -- don't\n", ' /* 5" */ ', '/***/', '\n# h; c\n'],
}

_checked = None


def checked():
    """verify pools: every spelling lexes (in delimited context) to exactly one
    significant token of the expected type; names/aliases/fnames are no keywords."""
    global _checked
    if _checked is not None:
        return _checked
    from sqlparse import lexer, tokens as T
    kw = extract.all_keyword_words()
    ok, bad = {}, []
    for lab, (cls, sp, want) in POOLS.items():
        keep = []
        for s in sp:
            toks = [(tt, v) for tt, v in lexer.tokenize(' ' + s + ' ') if tt not in T.Whitespace]
            if len(toks) != 1 or (want and not str(toks[0][0]).startswith(want)):
                # dotted / special contexts are checked in place, not here
                if lab in ('name', 'fname', 'alias', 'dqname', 'btname') or want:
                    bad.append((lab, s, [str(t[0]) for t in toks]))
                    continue
            if lab in ('name', 'fname', 'alias') and s.upper() in kw:
                bad.append((lab, s, 'keyword'))
                continue
            keep.append(s)
        if not keep:
            raise MachineryError('no usable spelling for label %s: %s' % (lab, bad))
        ok[lab] = keep
    _checked = (ok, bad)
    return _checked


class Prog:
    """tokens: list of labels; spans: list of (kind, first_tok, last_tok_exclusive, parent_index)"""

    def __init__(self, out):
        self.tokens = []
        self.spans = []
        stack = []
        for s in out:
            if s.startswith('<'):
                self.spans.append([s[1:], len(self.tokens), None, stack[-1] if stack else -1])
                stack.append(len(self.spans) - 1)
            elif s.startswith('>'):
                i = stack.pop()
                self.spans[i][2] = len(self.tokens)
            else:
                self.tokens.append(s)
        if stack:
            raise MachineryError('unbalanced annotations')
        self.key = tuple(out)

    def children(self, i, kind=None):
        return [j for j, s in enumerate(self.spans) if s[3] == i and (kind is None or s[0] == kind)]

    def descendants(self, i, kind):
        out = []
        todo = [i]
        while todo:
            k = todo.pop()
            for j in self.children(k):
                if self.spans[j][0] == kind:
                    out.append(j)
                todo.append(j)
        return sorted(out)


NAMELIKE = ('name', 'dqname', 'btname', 'alias', 'fname', 'typename', 'str', 'num', 'ph')


def _wordish(c):
    return c.isalnum() or c in '_$@#'


def fuses(wa, wb):
    """would the spellings wa wb, written without a gap, run into each other? (word into word; quotes delimit themselves)"""
    return _wordish(wa[-1:]) and _wordish(wb[:1])


def need_gap(a, b):
    """is a non-empty gap required between labels a and b (else tokens would fuse)?"""
    ca, cb = POOLS[a][0], POOLS[b][0]
    if a in ('dqname', 'btname') and b == 'lp':
        return False     # `"t"(n)`: a quoted name delimits itself
    if ca == WORD and b == 'lp' and a != 'fname':
        return True      # `where(`, `then(` would be lexed as a function name: keep keywords apart from `(`
    return PUNCT not in (ca, cb)


def no_gap(a, b):
    """positions where the grammar writes tokens adjacent (qualified names, calls, subscripts)"""
    return a == 'dot' or b == 'dot' or (a == 'fname' and b == 'lp') or b == 'lbr' or a == 'sign'


class Spelled:
    def __init__(self, prog, text, tokspans, words):
        self.prog, self.text, self.tokspans, self.words = prog, text, tokspans, words

    def span_chars(self, i):
        kind, a, b, _ = self.prog.spans[i]
        if a >= b:
            return None
        return (self.tokspans[a][0], self.tokspans[b - 1][1])

    def span_text(self, i):
        c = self.span_chars(i)
        return None if c is None else self.text[c[0]:c[1]]


_rr = {}
TAILS = ['', '', '', ' ', '\n', ' -- t', '\n-- end', '\n/* e */', '\n-- end\n', ' /* e */ ']


def spell(prog, rng, gaps='blank', canonical=False, tight=False, choices=None, canonical_kw=False, tail=False):
    """gaps: 'blank' | 'ws' | 'cmt' (which fillers may appear between tokens);
    tight: leave optional gaps empty; canonical: first spelling of every pool;
    tail: the position behind the last token may hold a comment / line break too."""
    ok, _ = checked()
    parts = []
    tokspans = []
    words = []
    pos = 0
    prev = None
    for lab in prog.tokens:
        if canonical:
            w = ok[lab][0]
        elif rng.random() < 0.5:
            w = rng.choice(ok[lab])
        else:
            # every spelling of a pool gets its turn (round robin per label): a rare spelling is not left to luck
            _rr[lab] = _rr.get(lab, 0) + 1
            w = ok[lab][_rr[lab] % len(ok[lab])]
        if canonical_kw and ' ' in w and not w.startswith(('"', '`', "'")):
            w = ' '.join(w.split())
        g = ''
        if prev is not None and not no_gap(prev, lab):
            must = need_gap(prev, lab)
            if (must and tight and POOLS[prev][0] == WORD and POOLS[lab][0] == WORD and not fuses(words[-1], w)
                    and not (prev in NAMELIKE and lab in NAMELIKE)):     # an alias without AS is set off by whitespace only
                must = False     # `AS"x"`, `'s'from`: a quote delimits itself (judged afterwards by lexes_as_intended)
            if must or not tight:
                if gaps == 'blank' or (canonical and gaps == 'blank'):
                    g = ' '
                else:
                    g = rng.choice(GAPS[gaps])
                    if POOLS[prev][0] == OPER and g[:1] in '/-#':
                        g = ' ' + g
                    if POOLS[lab][0] == OPER and g[-1:] in '/-*':
                        g = g + ' '
                if not must and lab in ('comma', 'rp', 'semi') and gaps == 'blank':
                    g = ''
                if not must and prev == 'lp' and gaps == 'blank':
                    g = ''
                if not must and lab == 'lp' and prev in ('fname',):
                    g = ''
        parts.append(g)
        pos += len(g)
        parts.append(w)
        tokspans.append((pos, pos + len(w)))
        words.append(w)
        pos += len(w)
        prev = lab
    if tail and gaps in ('cmt', 'cmtx'):
        parts.append(rng.choice(TAILS))
    return Spelled(prog, ''.join(parts), tokspans, words)


def gen_cfg(start, fuel, maxout, emit=True):
    return ('SPECIFICATION Spec\nCONSTANTS\n Fuel = %d\n MaxOut = %d\n Start = "%s"\n Emit = %s\n'
            'INVARIANT WellNested\nINVARIANT PrintDone\n' % (fuel, maxout, start, 'TRUE' if emit else 'FALSE'))


def programs(ctx, n, label, start='Script', fuel=13, maxout=90, seed=0):
    """n random derivations (TLC -simulate) of SqlGen; returns distinct Prog objects"""
    res = tlc.run(ctx.workdir, 'SqlGen', gen_cfg(start, fuel, maxout), workers=1, label=label, coverage=False,
                  simulate='num=%d' % n, depth=2500, seed=seed, timeout=900)
    ctx.add_tlc(res, '%s SqlGen simulate %d start=%s depth budget %d' % (label, n, start, fuel))
    out, seen = [], set()
    for p in res.printed:
        k = tuple(p['out'])
        if k in seen:
            continue
        seen.add(k)
        out.append(Prog(p['out']))
    return out


def lexes_as_intended(sp):
    """the spelled program's significant tokens are exactly the intended words"""
    from sqlparse import lexer, tokens as T
    toks = [v for tt, v in lexer.tokenize(sp.text) if tt not in T.Whitespace and tt not in T.Comment]

    def flat(vs):      # `except all` is two tokens, `union all` one: compare word by word
        out = []
        for v in vs:
            out.extend([v] if v[:1] in '"\'`' else v.split())
        return out
    return flat(toks) == flat(sp.words)
