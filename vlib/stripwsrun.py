"""StripWs.tla: exhaustive design-level run (normal forms per token list) and binding to the real StripWhitespaceFilter."""
from . import tlc


def cfg(maxlen, emit):
    return ('SPECIFICATION Spec\nCONSTANTS\n MaxLen = %d\n Emit = %s\nINVARIANT NoLeadingBlank\nINVARIANT NoDoubleBlank\n'
            'INVARIANT NoBlankBeforeComma\nINVARIANT NoBlankInsideParens\nINVARIANT PrintDone\nCHECK_DEADLOCK FALSE\n'
            % (maxlen, 'TRUE' if emit else 'FALSE'))


def real_result(cls, ks):
    from sqlparse import sql, tokens as T
    from sqlparse.filters import StripWhitespaceFilter

    def tok(k):
        if k == 'w':
            return sql.Token(T.Whitespace, ' ')
        if k == 'x':
            return sql.Token(T.Name, 'x')
        if k == 'c':
            return sql.Token(T.Punctuation, ',')
        if k in ('l', 'r'):
            return sql.Token(T.Punctuation, '(' if k == 'l' else ')')
        return sql.Identifier([sql.Token(T.Name, 'y')] + [sql.Token(T.Whitespace, ' ') for _ in range(int(k[1]))])
    c = {'default': sql.TokenList, 'identifierlist': sql.IdentifierList, 'parenthesis': sql.Parenthesis}[cls]
    node = c([tok(k) for k in ks])
    try:
        StripWhitespaceFilter().process(node, depth=1)
    except Exception as e:  # noqa
        return '<<%s>>' % type(e).__name__
    out = []
    for t in node.tokens:
        if t.is_group:
            n = 0
            for x in reversed(t.tokens):
                if x.is_whitespace:
                    n += 1
                else:
                    break
            out.append(['g%d' % n, '.'])
        elif t.is_whitespace:
            out.append(['w', t.value])
        else:
            out.append([{',': 'c', '(': 'l', ')': 'r'}.get(t.value, 'x'), '.'])
    return out


def run(ctx, quick):
    n = bad = 0
    res = tlc.run(ctx.workdir, 'StripWs', cfg(4 if quick else 6, True), workers=1, label='StripWs', coverage=False, timeout=1500)
    ctx.add_tlc(res, 'StripWs.tla: all token lists len<=%d x 3 list classes, normal forms + emission for the binding' % (4 if quick else 6))
    for p in res.printed:
        got = real_result(p['cls'], p['ks'])
        n += 1
        ctx.evals()
        want = [list(x) for x in p['res']]
        if got != want:
            bad += 1
            if bad <= 3:
                ctx.drift('StripWs.tla predicts %s for %s %s, StripWhitespaceFilter gives %s' % (want, p['cls'], ''.join(p['ks']), got))
    ctx.cov['stripws_lists_replayed'] = n
    ctx.cov['stripws_model_disagreements'] = bad
    return n, bad
