"""TLC runner: writes a cfg (and optionally a generated MC module) into the
check's work directory, runs TLC under a timeout with -coverage 1, parses
states / coverage / printed JSON behaviours."""
import json
import os
import re
import subprocess
import time

from .core import SPEC, MachineryError

JAR = '/opt/veriftools/tla/tla2tools.jar'
DEPS = '/opt/veriftools/tla/CommunityModules-deps.jar'


class TlcResult:
    def __init__(self):
        self.out = ''
        self.generated = 0
        self.distinct = 0
        self.coverage = {}
        self.printed = []      # decoded "@@" JSON values
        self.violated = None   # name of violated invariant / property
        self.ok = False
        self.wall = 0.0
        self.mode = ''
        self.rc = None
        self.cex = []          # counterexample states as text blocks


def _parse(res, out):
    res.out = out
    m = None
    for m in re.finditer(r'(\d+) states generated, (\d+) distinct states found', out):
        pass
    if m:
        res.generated, res.distinct = int(m.group(1)), int(m.group(2))
    else:
        m = re.search(r'The number of states generated: (\d+)', out)
        if m:
            res.generated = int(m.group(1))
            res.distinct = res.generated
    # coverage: <Action line .. of module M>: distinct:generated
    for m in re.finditer(r'^<(\w+) line \d+, col \d+ to line \d+, col \d+ of module (\w+)>: (\d+):(\d+)', out, re.M):
        res.coverage[m.group(1)] = res.coverage.get(m.group(1), 0) + int(m.group(4))
    for m in re.finditer(r'^<(\w+) line \d+, col \d+ to line \d+, col \d+ of module (\w+)> \(\d+ \d+\): (\d+):(\d+)', out, re.M):
        res.coverage[m.group(1)] = res.coverage.get(m.group(1), 0) + int(m.group(4))
    for line in out.splitlines():
        if line.startswith('"@@'):
            try:
                s = json.loads(line)
                res.printed.append(json.loads(s[2:]))
            except Exception:
                # TLA+ string escapes differ slightly from JSON: \" and \\ only
                try:
                    s = line[1:-1].replace('\\"', '"').replace('\\\\', '\\')
                    res.printed.append(json.loads(s[2:]))
                except Exception as e:
                    raise MachineryError('cannot decode TLC line %r: %s' % (line[:200], e))
    m = re.search(r'Invariant (\w+) is violated', out)
    if m:
        res.violated = m.group(1)
    m = re.search(r'Action property (\w+) is violated', out)
    if m:
        res.violated = m.group(1)
    if 'Temporal properties were violated' in out:
        res.violated = res.violated or 'temporal'
    if re.search(r'Deadlock reached', out):
        res.violated = res.violated or 'deadlock'
    m = re.search(r'The postcondition .*? (?:is|was) violated|Evaluating the postcondition .* failed|POSTCONDITION .* violated', out)
    if m:
        res.violated = res.violated or 'postcondition'
    res.ok = ('Model checking completed. No error has been found' in out
              or ('Finished in' in out and res.violated is None and 'Error:' not in out))
    if res.violated:
        res.cex = re.findall(r'^State \d+:.*?(?=^State \d+:|^\d+ states generated|\Z)', out, re.M | re.S)


def run(workdir, module, cfg, *, extra_modules=None, workers=16, env=None,
        simulate=None, depth=None, seed=None, timeout=600, coverage=True,
        deadlock=False, label=None, spec_dir=SPEC, allow_violation=False,
        java_opts=None):
    """module: name of a .tla in spec_dir, or of a generated module given in
    extra_modules {name: text}.  cfg: text of the config."""
    os.makedirs(workdir, exist_ok=True)
    label = label or module
    tag = re.sub(r'\W', '_', label)
    rundir = os.path.join(workdir, tag)
    os.makedirs(rundir, exist_ok=True)
    for name, text in (extra_modules or {}).items():
        with open(os.path.join(rundir, name + '.tla'), 'w') as f:
            f.write(text)
    # main module must be in rundir (TLC resolves relative to it)
    main = os.path.join(rundir, module + '.tla')
    if not os.path.exists(main):
        # thin copy
        with open(os.path.join(spec_dir, module + '.tla')) as f:
            text = f.read()
        with open(main, 'w') as f:
            f.write(text)
    cfgp = os.path.join(rundir, module + '.cfg')
    with open(cfgp, 'w') as f:
        f.write(cfg)
    cmd = ['java', '-XX:+UseParallelGC', '-Xmx%s' % os.environ.get('VERIF_TLC_HEAP', '3g'), '-Xss512m',
           '-DTLA-Library=' + spec_dir]
    cmd += list(java_opts or [])
    cmd += ['-cp', JAR + ':' + DEPS, 'tlc2.TLC',
            '-workers', str(workers), '-metadir', os.path.join(rundir, 'meta'),
            '-noGenerateSpecTE', '-config', cfgp]
    if coverage:
        cmd += ['-coverage', '1']
    if not deadlock:
        cmd += ['-deadlock']   # -deadlock == do NOT check deadlock
    if simulate:
        cmd += ['-simulate', simulate]
    if depth:
        cmd += ['-depth', str(depth)]
    if seed is not None:
        cmd += ['-seed', str(seed)]
    cmd += [main]
    e = dict(os.environ)
    e.update(env or {})
    t0 = time.time()
    try:
        p = subprocess.run(cmd, cwd=rundir, env=e, stdout=subprocess.PIPE,
                           stderr=subprocess.STDOUT, timeout=timeout, text=True,
                           errors='replace')
    except subprocess.TimeoutExpired as ex:
        raise MachineryError('TLC timeout (%ss) on %s' % (timeout, label))
    res = TlcResult()
    res.wall = time.time() - t0
    res.rc = p.returncode
    res.mode = 'simulate' if simulate else 'exhaustive'
    _parse(res, p.stdout)
    with open(os.path.join(rundir, 'tlc.out'), 'w') as f:
        f.write(p.stdout)
    if not res.ok and not (allow_violation and res.violated):
        tail = '\n'.join(p.stdout.splitlines()[-40:])
        raise MachineryError('TLC failed on %s (rc=%s):\n%s' % (label, p.returncode, tail))
    return res


def tla_seq(xs):
    return '<<' + ', '.join(xs) + '>>'


def tla_str(s):
    return '"' + s.replace('\\', '\\\\').replace('"', '\\"') + '"'


def tla_val(v):
    """python -> TLA+ literal (ints, bools, strings, lists->sequences,
    dict->record with string keys, set->set)."""
    if isinstance(v, bool):
        return 'TRUE' if v else 'FALSE'
    if isinstance(v, int):
        return str(v)
    if isinstance(v, str):
        return tla_str(v)
    if isinstance(v, (list, tuple)):
        return '<<' + ', '.join(tla_val(x) for x in v) + '>>'
    if isinstance(v, (set, frozenset)):
        return '{' + ', '.join(tla_val(x) for x in sorted(v, key=repr)) + '}'
    if isinstance(v, dict):
        if not v:
            return '<<>>'
        return '[' + ', '.join('%s |-> %s' % (k, tla_val(x)) for k, x in v.items()) + ']'
    raise TypeError(v)
