r"""Batch trace validation: real executions, recorded as JSON traces, are checked
by TLC against a Trace*.tla module that reuses the spec's guards.  Each module
follows the same protocol:

  Traces == JsonDeserialize(IOEnv.TRACE_FILE); tid \in 1..Len(Traces) in Init;
  CONSTRAINT Mark   -- adds accepted tids to TLC register 1, prints
                       <<"REJ", id, clause, step>> for rejected ones
  POSTCONDITION Post -- prints <<"ACCEPTED", n, total>>

Chunks run as parallel single-worker TLC processes (the register protocol needs
-workers 1)."""
import json
import os
import re
from concurrent.futures import ThreadPoolExecutor

from . import tlc
from .core import MachineryError

CFG = """SPECIFICATION Spec
CONSTRAINT Mark
POSTCONDITION Post
CHECK_DEADLOCK FALSE
"""


def _one(ctx, module, chunk, idx, label, timeout, cfg):
    rundir = os.path.join(ctx.workdir, '%s_%d' % (label, idx))
    os.makedirs(rundir, exist_ok=True)
    tf = os.path.join(rundir, 'traces.json')
    with open(tf, 'w') as f:
        json.dump(chunk, f)
    res = tlc.run(rundir, module, cfg or CFG, workers=1, env={'TRACE_FILE': tf},
                  timeout=timeout, coverage=False, label='%s_%d' % (label, idx))
    rej = {}
    for m in re.finditer(r'<<\s*"REJ",\s*(-?\d+),\s*"([^"]*)",\s*(-?\d+)\s*>>', res.out):
        rej[int(m.group(1))] = (m.group(2), int(m.group(3)))
    res.drift_ids = [int(x) for x in re.findall(r'<<\s*"DRIFT",\s*(-?\d+)\s*>>', res.out)]
    m = re.search(r'<<\s*"ACCEPTED",\s*(\d+),\s*(\d+)\s*>>', res.out)
    if not m:
        raise MachineryError('no ACCEPTED line from %s chunk %d:\n%s'
                             % (module, idx, res.out[-2000:]))
    acc, total = int(m.group(1)), int(m.group(2))
    if total != len(chunk) or acc + len(rej) != total:
        raise MachineryError('%s chunk %d: accepted %d + rejected %d != %d traces '
                             '(a trace got no verdict)\n%s'
                             % (module, idx, acc, len(rej), len(chunk), res.out[-1500:]))
    try:
        os.remove(tf)
    except OSError:
        pass
    return res, rej


def validate(ctx, module, traces, label=None, chunks=16, timeout=900, cfg=None,
             min_chunk=50):
    """traces: list of dicts, each with an integer 'id' unique in the list.
    Returns {id: (clause, step)} for rejected traces."""
    label = label or module
    if not traces:
        return {}
    n = max(1, min(chunks, (len(traces) + min_chunk - 1) // min_chunk))
    # a chunk is one TLC process reading one JSON file: keep it below ~2.5 MB of trace text so that a chunk never
    # approaches the per-process timeout however many traces a (thorough) run records; 16 processes run at a time
    total = sum(len(json.dumps(t, separators=(',', ':'))) for t in traces)
    n = max(n, (total + 2500000 - 1) // 2500000)
    parts = [traces[i::n] for i in range(n)]
    rejected = {}
    ctx.last_drift = []
    with ThreadPoolExecutor(max_workers=min(n, 16)) as ex:
        futs = [ex.submit(_one, ctx, module, p, i, label, timeout, cfg)
                for i, p in enumerate(parts)]
        agg_gen = agg_dist = 0
        wall = 0.0
        for f in futs:
            res, rej = f.result()
            rejected.update(rej)
            ctx.last_drift += res.drift_ids
            agg_gen += res.generated
            agg_dist += res.distinct
            wall = max(wall, res.wall)
    r = tlc.TlcResult()
    r.generated, r.distinct, r.wall, r.mode = agg_gen, agg_dist, wall, 'trace-validation'
    ctx.add_tlc(r, label + ' (%d traces, %d chunks)' % (len(traces), n))
    ctx.traces(len(traces))
    return rejected
