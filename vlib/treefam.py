"""Shared machinery of the tree family (C02, C03, C09)."""
import random

from . import tlc, tracecheck, treerec, splitfam
from .core import MachineryError, uncps, cps
from .spell import spell, checked_pools, vary_inner_ws
from .lexrec import sigma_strings, SIGMA_QUICK, random_unicode

TAG_SPELL = {'lp': ['('], 'rp': [')'], 'lb': ['['], 'rb': [']'], 'case': ['case', 'CASE'],
             'end': ['end', 'END'], 'if': ['if', 'IF'], 'endif': ['end if', 'END IF'],
             'for': ['for', 'FOR', 'foreach'], 'endloop': ['end loop', 'END LOOP'],
             'begin': ['begin', 'BEGIN'], 'x': ['a', '1', 'foo', "'s'", 'b.c', 'x+1', 'when', ','],
             'ws': [' ', '\n', '  ']}


_x_extra = None


def x_fillers():
    """filler spellings: besides names and literals, table keywords that merely CONTAIN a delimiter word
    (PERFORM, BEFORE, FOREIGN contain FOR; NOTIFY contains IF; APPEND contains END ...) - they are fillers too"""
    global _x_extra
    if _x_extra is None:
        from . import extract
        from sqlparse import lexer
        out = []
        for w in sorted(extract.all_keyword_words()):
            if any(d in w and d != w for d in ('FOR', 'IF', 'END', 'CASE', 'BEGIN', 'LOOP')) and w.isalpha():
                toks = list(lexer.tokenize(w.lower()))
                if len(toks) == 1 and treerec.delimiter_tag(type('T', (), {'ttype': toks[0][0], 'value': toks[0][1]})()) == 'x':
                    out.append(w.lower())
        _x_extra = out[::max(1, len(out) // 14)]
    return _x_extra


def spell_tags(tags, rng, canonical=False):
    parts = []
    prev = None
    for t in tags:
        s = TAG_SPELL[t][0] if canonical else vary_inner_ws(rng.choice(TAG_SPELL[t] + (x_fillers() if t == 'x' else [])), rng)
        if prev is not None and t != 'ws' and prev != 'ws':
            if t == 'lb' and prev in ('x', 'rp', 'rb'):
                pass                      # x[ : array subscript bracket (Punctuation)
            elif t in ('rp', 'rb') or prev in ('lp', 'lb'):
                pass
            else:
                parts.append(' ')
        parts.append(s)
        prev = t
    return ''.join(parts)


def bracket_cfg(alpha, n, emit, minlen=0):
    return ("SPECIFICATION Spec\nCONSTANTS\n Alphabet = {%s}\n MaxLen = %d\n MinLen = %d\n Emit = %s\nINVARIANT %s\n"
            % (','.join('"%s"' % a for a in alpha), n, minlen, 'TRUE' if emit else 'FALSE',
               'PrintDone' if emit else 'PrintDisagree'))


def bracket_sequences(ctx, alpha, n, label, simulate=None, seed=0, minlen=0):
    res = tlc.run(ctx.workdir, 'BracketGen', bracket_cfg(alpha, n, True, minlen), workers=1, label=label,
                  coverage=False, simulate=('num=%d' % simulate) if simulate else None,
                  depth=(n + 2) if simulate else None, seed=seed if simulate else None, timeout=900)
    ctx.add_tlc(res, '%s alphabet=%s len<=%d%s' % (label, alpha, n, ' simulate %d' % simulate if simulate else ' exhaustive'))
    return res.printed


ALL_TAGS = ['lp', 'rp', 'lb', 'rb', 'case', 'end', 'if', 'endif', 'for', 'endloop', 'begin', 'x', 'ws']


def tag_inputs(ctx, quick, rng):
    """TLC-generated delimiter sequences, spelled; returns list of (text, tags, agree)"""
    seqs = []
    seqs += bracket_sequences(ctx, ['lp', 'rp', 'x', 'ws'], 6 if quick else 7, 'BG_paren')
    seqs += bracket_sequences(ctx, ['lp', 'rp', 'case', 'end', 'x'], 5 if quick else 6, 'BG_paren_case')
    seqs += bracket_sequences(ctx, ['case', 'begin', 'end', 'lp', 'rp'], 5 if quick else 6, 'BG_shared_end')
    seqs += bracket_sequences(ctx, ['lb', 'rb', 'x', 'lp', 'rp'], 4 if quick else 5, 'BG_brackets')
    seqs += bracket_sequences(ctx, ['if', 'endif', 'for', 'endloop', 'begin', 'end'], 4 if quick else 5, 'BG_blocks')
    seqs += bracket_sequences(ctx, ALL_TAGS, 24, 'BG_all', simulate=2000 if quick else 10000, seed=ctx.seed * 3 + 1, minlen=6)
    out = []
    seen = set()
    for s in seqs:
        key = tuple(s['tags'])
        if key in seen:
            continue
        seen.add(key)
        out.append((spell_tags(s['tags'], rng, canonical=(len(out) % 2 == 0)), s['tags'], s['agree']))
    return out


def script_inputs(ctx, quick, rng, label):
    """ScriptGen scripts (all constructs + junk) spelled"""
    from .checks.c04 import EVERYTHING
    checked_pools()
    scripts = splitfam.emit_scripts(ctx, EVERYTHING, 5, label + '_emit', simulate=800 if quick else 6000,
                                    maxlen=30 if quick else 45, minlen=3, seed=ctx.seed * 19 + 2)
    scripts += splitfam.emit_scripts(ctx, ['junk'], 2, label + '_junk', simulate=800 if quick else 6000,
                                     maxlen=14 if quick else 22, softlen=12 if quick else 20, minlen=2, seed=ctx.seed * 23 + 4)
    texts = []
    seen = set()
    for s in scripts:
        key = tuple(h['lab'] for h in s['hist'])
        if key not in seen:
            seen.add(key)
            texts.append(spell(s['hist'], rng))
    return texts


def parse_cfg(props):
    return tracecheck.CFG + 'CONSTANTS\n  Props = {%s}\n' % ', '.join('"%s"' % p for p in props)


def validate(ctx, traces, props, label):
    return tracecheck.validate(ctx, 'TraceParse', traces, label=label, cfg=parse_cfg(props), min_chunk=30)


def replay_parse(pid, props, rec, nav=False):
    from .core import Ctx
    import shutil
    ctx = Ctx(pid, 'quick', 'model_checking')
    t = uncps(rec['case']['input_cps'])
    tr = treerec.parse_trace(0, t, random.Random(0), nav=nav, strs=True)
    rej = validate(ctx, [tr], props, 'replay')
    shutil.rmtree(ctx.workdir, ignore_errors=True)
    if rej:
        print('VIOLATION property=%s replay=%s' % (pid, rec.get('replay', '?')))
        print('  still fails: %s' % (rej,))
        return 1
    print('replay passes on the current tree')
    return 0
