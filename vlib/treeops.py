"""S->C for TreeOps.tla: TLC-chosen group_tokens sequences applied to real TokenLists."""
from . import tlc, treerec
from .core import MachineryError

CFG = ('SPECIFICATION Spec\nCONSTANTS\n NLeaves = %d\n MaxOps = %d\n Classes = {"A","B"}\n ReparentExtend = %s\n RefreshValue = %s\n Emit = %s\n'
       'INVARIANT LeavesPreserved\nINVARIANT ParentIsContainer\nINVARIANT EachNodeOnce\nINVARIANT GroupsNonEmpty\nINVARIANT CachedValueIsText\nINVARIANT PrintOps\n')


def model_check(ctx, nleaves, maxops, label):
    r = tlc.run(ctx.workdir, 'TreeOps', CFG % (nleaves, maxops, 'TRUE', 'TRUE', 'FALSE'), workers=8, label=label, coverage=False, timeout=900)
    ctx.add_tlc(r, 'TreeOps exhaustive: %d leaves, every sequence of <=%d group_tokens steps' % (nleaves, maxops))
    for re_, rv in (('FALSE', 'TRUE'), ('TRUE', 'FALSE')):
        m = tlc.run(ctx.workdir, 'TreeOps', CFG % (4, 2, re_, rv, 'FALSE'), workers=4, label=label + '_mut', coverage=False, allow_violation=True)
        if not m.violated:
            raise MachineryError('vacuity guard: TreeOps mutant (ReparentExtend=%s, RefreshValue=%s) not rejected' % (re_, rv))
    ctx.notes.append('vacuity guard ok: TreeOps without re-parenting / value refresh violates the tree invariants')


def behaviours(ctx, nleaves, maxops, label, simulate, seed):
    r = tlc.run(ctx.workdir, 'TreeOps', CFG % (nleaves, maxops, 'TRUE', 'TRUE', 'TRUE'), workers=1, label=label, coverage=False,
                simulate='num=%d' % simulate, depth=maxops + 2, seed=seed, timeout=900)
    ctx.add_tlc(r, 'TreeOps simulate %d behaviours (%d leaves, %d ops)' % (simulate, nleaves, maxops))
    out = r.printed
    if len(out) > simulate:
        import random
        out = random.Random(seed).sample(out, simulate)   # the simulator also evaluates the invariant on unchosen successors
    return out


def apply_real(beh, nleaves):
    """apply the behaviour's operations with the real TokenList.group_tokens; returns (statement, drift message or None)"""
    from sqlparse import sql, tokens as T
    clsmap = {'A': sql.Identifier, 'B': sql.Parenthesis}
    leaves = [sql.Token(T.Name, 'n%d' % i) for i in range(nleaves)]
    stmt = sql.Statement(list(leaves))
    groups = {1: stmt}
    nxt = nleaves + 2
    for op in beh['ops']:
        g = groups[op['g']]
        first = g.tokens[op['s']]
        will_extend = op['x'] and isinstance(first, clsmap[op['c']])
        res = g.group_tokens(clsmap[op['c']], op['s'], op['e'], extend=op['x'])
        if not will_extend:
            groups[nxt] = res
            nxt += 1
    # compare structure with the model's final tree
    ids = {id(stmt): 1}
    for i, l in enumerate(leaves):
        ids[id(l)] = i + 2
    for k, v in groups.items():
        ids[id(v)] = k
    msg = None
    for k, ent in beh['tree'].items():
        real = [ids.get(id(t), -1) for t in groups[int(k)].tokens]
        if real != ent['kids']:
            msg = 'group %s: model kids %s, real %s after %s' % (k, ent['kids'], real, beh['ops'])
            break
    return stmt, msg


def stmt_trace(tid, stmt):
    """node-table trace of a hand-built statement (for TraceParse C02/C03 clauses)"""
    from .project import text_of
    from .core import cps
    from sqlparse import tokens as T
    root, nodes, order, ids = treerec.node_table(stmt)
    text = text_of(stmt)
    lex = [{'ty': n['ty'], 'val': n['val'], 'ws': False} for i, n in enumerate(nodes) if False]
    leaf_ids = treerec.leaf_ids({'root': root, 'nodes': nodes})
    lex = [{'ty': nodes[i - 1]['ty'], 'val': nodes[i - 1]['val'], 'ws': False} for i in leaf_ids]
    return {'id': tid, 'text': cps(text), 'lex': lex, 'exc': '',
            'stmts': [{'root': root, 'nodes': nodes, 'strs': [cps(str(t)) for t in order], 'nav': []}]}
