"""Recording parse() results as node tables (trace kind `parse`)."""
from .core import cps
from . import project

SIX = ('SquareBrackets', 'Parenthesis', 'Case', 'If', 'For', 'Begin')


def delimiter_tag(tok):
    """bracket / block delimiter tag of a leaf, from the property's own table
    (C09 names the delimiters; this is NOT read from M_OPEN/M_CLOSE)."""
    from sqlparse import tokens as T
    tt, v = tok.ttype, tok.value
    if tt in T.Whitespace:
        return 'ws'
    if tt in T.Comment:
        return 'cmt'
    if tt is T.Punctuation:
        return {'(': 'lp', ')': 'rp', '[': 'lb', ']': 'rb'}.get(v, 'x')
    if tt is T.Keyword:
        u = ' '.join(v.upper().split())      # END<any whitespace>IF is the one keyword END IF
        return {'CASE': 'case', 'END': 'end', 'IF': 'if', 'END IF': 'endif', 'FOR': 'for',
                'FOREACH': 'for', 'END LOOP': 'endloop', 'BEGIN': 'begin'}.get(u, 'x')
    return 'x'


def node_table(stmt):
    """iterative; ids by first visit; an object reachable twice keeps one id (aliasing visible)"""
    from sqlparse import tokens as T, sql
    ids = {}
    nodes = []
    order = []

    def nid(t):
        k = id(t)
        if k not in ids:
            ids[k] = len(nodes) + 1
            nodes.append(None)
            order.append(t)
        return ids[k]
    root = nid(stmt)
    i = 0
    while i < len(order):
        t = order[i]
        me = ids[id(t)]
        if getattr(t, 'is_group', False) and hasattr(t, 'tokens'):
            kids = [nid(c) for c in t.tokens]
            nodes[me - 1] = {'cls': type(t).__name__, 'kids': kids, 'ptr': 0, 'val': cps(t.value),
                             'ty': '', 'ws': False, 'cm': isinstance(t, sql.Comment), 'tag': ''}
        else:
            nodes[me - 1] = {'cls': '', 'kids': [], 'ptr': 0, 'val': cps(t.value), 'ty': str(t.ttype),
                             'ws': t.ttype in T.Whitespace, 'cm': t.ttype in T.Comment,
                             'tag': delimiter_tag(t)}
        i += 1
        if len(order) > 5000:
            raise ValueError('tree too large / cyclic')
    for t in order:
        p = t.parent
        nodes[ids[id(t)] - 1]['ptr'] = ids.get(id(p), -1) if p is not None else 0
    return root, nodes, order, ids


def nav_queries(stmt, order, ids, rng, budget=60):
    """call the real navigation helpers; record answers"""
    from sqlparse import sql
    qs = []

    def rid(t):
        return ids.get(id(t), -1) if t is not None else 0
    groups = [t for t in order if getattr(t, 'is_group', False)]
    leaves = [t for t in order if not getattr(t, 'is_group', False)]
    for g in groups:
        n = len(g.tokens)
        idxs = list(range(-1, n)) if n <= 6 else sorted(rng.sample(range(-1, n), 6))
        for i in idxs:
            for sw in (True, False):
                for sc in (True, False):
                    if rng.random() < 0.5 and len(qs) > budget:
                        continue
                    ri, rn = g.token_next(i, skip_ws=sw, skip_cm=sc)
                    qs.append({'op': 'next', 'g': ids[id(g)], 'i': i, 'sw': sw, 'sc': sc, 'c': '', 'cs': [], 'o': 0,
                               'ri': -1 if ri is None else ri, 'rn': rid(rn)})
                    if i >= 0:
                        ri, rn = g.token_prev(i, skip_ws=sw, skip_cm=sc)
                        qs.append({'op': 'prev', 'g': ids[id(g)], 'i': i, 'sw': sw, 'sc': sc, 'c': '', 'cs': [], 'o': 0,
                                   'ri': -1 if ri is None else ri, 'rn': rid(rn)})
        for sw in (True, False):
            for sc in (True, False):
                f = g.token_first(skip_ws=sw, skip_cm=sc)
                qs.append({'op': 'first', 'g': ids[id(g)], 'i': 0, 'sw': sw, 'sc': sc, 'c': '', 'cs': [], 'o': 0,
                           'ri': 0, 'rn': rid(f)})
        for c in (g.tokens if n <= 8 else rng.sample(g.tokens, 8)):
            qs.append({'op': 'index', 'g': ids[id(g)], 'i': 0, 'sw': False, 'sc': False, 'c': '',
                       'o': ids[id(c)], 'ri': g.token_index(c), 'rn': 0})
            # the optional second argument (an index or a sibling token to start from) does not change the answer
            pos = next(k for k, x in enumerate(g.tokens) if x is c)
            if pos > 0:
                st = rng.randrange(0, pos + 1)
                qs.append({'op': 'index', 'g': ids[id(g)], 'i': st, 'sw': False, 'sc': False, 'c': '',
                           'o': ids[id(c)], 'ri': g.token_index(c, st), 'rn': 0})
                qs.append({'op': 'index', 'g': ids[id(g)], 'i': st, 'sw': True, 'sc': False, 'c': '',
                           'o': ids[id(c)], 'ri': g.token_index(c, g.tokens[st]), 'rn': 0})
    total = sum(len(t.value) for t in leaves if True)
    text_len = len(''.join(t.value for t in project.leaves(stmt)))
    offs = list(range(0, text_len + 1)) if text_len <= 40 else sorted(rng.sample(range(0, text_len + 1), 40))
    for o in offs + [text_len + 3]:
        t = stmt.get_token_at_offset(o)
        qs.append({'op': 'offset', 'g': 0, 'i': o, 'sw': False, 'sc': False, 'c': '', 'cs': [], 'o': 0, 'ri': 0, 'rn': rid(t)})
    # within(): asked with every kind of class argument - the concrete classes present, base and mixin classes
    # (TokenList, NameAliasMixin, Token), classes not present, and tuples; the reference is isinstance on ancestors,
    # given to the model as the set of concrete node classes covered by the argument
    allcls = [c for c in vars(sql).values() if isinstance(c, type) and (issubclass(c, sql.Token) or c is sql.NameAliasMixin)]
    present = sorted({type(g) for g in groups}, key=lambda c: c.__name__)
    concrete = [c for c in allcls if issubclass(c, sql.TokenList)]

    def covered(arg):
        args = arg if isinstance(arg, tuple) else (arg,)
        return sorted(c.__name__ for c in concrete if issubclass(c, args))
    for t in (order if len(order) <= 25 else rng.sample(order, 25)):
        asked = present[:5] + rng.sample(allcls, 3) + [tuple(rng.sample(allcls, 2))]
        for c in asked:
            name = '+'.join(x.__name__ for x in c) if isinstance(c, tuple) else c.__name__
            qs.append({'op': 'within', 'g': 0, 'i': 0, 'sw': False, 'sc': False, 'c': name, 'cs': covered(c), 'o': ids[id(t)],
                       'ri': 1 if t.within(c) else 0, 'rn': 0})
        for g in (groups if len(groups) <= 6 else rng.sample(groups, 6)):
            qs.append({'op': 'ancestor', 'g': ids[id(g)], 'i': 0, 'sw': False, 'sc': False, 'c': '',
                       'o': ids[id(t)], 'ri': 1 if t.has_ancestor(g) else 0, 'rn': 0})
            qs.append({'op': 'childof', 'g': ids[id(g)], 'i': 0, 'sw': False, 'sc': False, 'c': '',
                       'o': ids[id(t)], 'ri': 1 if t.is_child_of(g) else 0, 'rn': 0})
    return qs


def parse_trace(tid, text, rng=None, nav=False, strs=True):
    import sqlparse
    from sqlparse import lexer, tokens as T
    tr = {'id': tid, 'text': cps(text), 'lex': [], 'stmts': [], 'exc': ''}
    tr['lex'] = [{'ty': str(tt), 'val': cps(v), 'ws': tt in T.Whitespace} for tt, v in lexer.tokenize(text)]
    try:
        stmts = sqlparse.parse(text)
    except Exception as e:  # noqa
        tr['exc'] = type(e).__name__
        return tr
    for s in stmts:
        root, nodes, order, ids = node_table(s)
        st = {'root': root, 'nodes': nodes, 'strs': [], 'nav': []}
        if strs:
            st['strs'] = [cps(str(t)) for t in order]
        else:
            st['strs'] = [n['val'] if n['cls'] == '' else None for n in nodes]
        if nav and rng is not None:
            st['nav'] = nav_queries(s, order, ids, rng)
        tr['stmts'].append(st)
    return tr


def leaf_ids(st):
    """left-to-right leaf ids of a recorded statement (iterative)"""
    nodes = st['nodes']
    out = []
    stack = [st['root']]
    while stack:
        n = stack.pop()
        nd = nodes[n - 1]
        if nd['cls'] == '':
            out.append(n)
        else:
            stack.extend(reversed(nd['kids']))
        if len(out) > 100000:
            break
    return out


def leaf_tags(tr, drop=('ws', 'cmt')):
    return [st['nodes'][i - 1]['tag'] for st in tr['stmts'] for i in leaf_ids(st)
            if st['nodes'][i - 1]['tag'] not in drop]
