"""C09 on wide inputs: tag sequences of one pair kind, > 10000 tokens in one list, validated step by step (TraceMatchWide.tla)."""
from . import treerec, tracecheck

KINDS = [('lp', 'rp', 'Parenthesis'), ('case', 'end', 'Case'), ('lb', 'rb', 'SquareBrackets'), ('if', 'endif', 'If'),
         ('for', 'endloop', 'For'), ('begin', 'end', 'Begin')]
PATTERNS = [['o', 'x', 'c', 'x'], ['o', 'x', 'o', 'x', 'c', 'c', 'x'], ['o', 'c', 'x', 'x', 'x']]


def wide_trace(tid, kind, pattern, reps, rng):
    import sqlparse
    from .treefam import spell_tags
    o, c, cls = kind
    tags = ['x'] + [{'o': o, 'c': c, 'x': 'x'}[t] for t in pattern] * reps
    text = spell_tags(tags, rng, canonical=True)
    tr = {'id': tid, 'tags': [], 'groups': [], 'exc': ''}
    try:
        stmts = sqlparse.parse(text)
    except Exception as e:  # noqa
        tr['exc'] = type(e).__name__
        return tr, text
    # leaves in order (iterative), their tags, and the leaf span of every node of the class
    pos = 0
    real_tags = []
    groups = []
    for s in stmts:
        stack = [(s, iter(s.tokens), None)]
        while stack:
            node, it, first = stack[-1]
            try:
                t = next(it)
            except StopIteration:
                stack.pop()
                if type(node).__name__ == cls and node._first is not None:
                    groups.append([node._first, node._last])
                continue
            if t.is_group:
                t._first = t._last = None
                stack.append((t, iter(t.tokens), None))
            else:
                tag = treerec.delimiter_tag(t)
                if tag in ('ws', 'cmt'):
                    continue
                pos += 1
                real_tags.append('o' if tag == o else 'c' if tag == c else 'x')
                for n, _, _ in stack:
                    if n is not s and getattr(n, '_first', 0) is None:
                        n._first = pos
                    if n is not s:
                        n._last = pos
    want = ['x'] + pattern * reps
    tr['tags'] = real_tags
    tr['groups'] = sorted(groups, key=lambda g: g[1])
    tr['as_intended'] = real_tags == want
    return tr, text


def run(ctx, quick, rng):
    traces, meta = [], []
    plan = [(KINDS[0], PATTERNS[0]), (KINDS[1], PATTERNS[1])] if quick else [(k, p) for k in KINDS for p in PATTERNS]
    for kind, pat in plan:
        ntok = 2 * len(pat)                       # every tag is followed by a blank
        reps = 10500 // ntok + 1
        tr, text = wide_trace(len(traces), kind, pat, reps, rng)
        if not tr['exc'] and not tr.pop('as_intended', True):
            ctx.notes.append('wide %s pattern did not lex as intended' % (kind,))
            continue
        tr.pop('as_intended', None)
        traces.append(tr)
        meta.append({'kind': kind[2], 'pattern': pat, 'reps': reps, 'text': text[:120]})
        ctx.evals()
        ctx.nontrivial(('wide', kind[2], tuple(pat)))
    rej = tracecheck.validate(ctx, 'TraceMatchWide', traces, label='TraceMatchWide', chunks=min(8, max(1, len(traces))))
    for tid, (clause, step) in sorted(rej.items()):
        m = meta[tid]
        ctx.violation({'kind': m['kind'], 'pattern': m['pattern'], 'reps': m['reps'], 'clause': clause, 'step': step, 'tags': ['wide', clause]},
                      'parse of %s repeated %d times (%r...): %s at tag %d' % (''.join(m['pattern']), m['reps'], m['text'][:60], clause, step))
    ctx.cov['wide_match_traces'] = len(traces)
