"""Wide programs: one item list of a SqlGen program replicated until the token list that holds it has more direct
children than any plausible internal limit (10000 tokens and beyond).  "The result does not depend on the other items
in the list" (C12), and a list is a list at any length (C13, C09, C07)."""
from . import sqlprog


def widen(prog, target_tokens=11000, keep=3, min_item=0):
    """-> new Prog or None.  The FIRST item of the first list with >= 1 item is replicated; the first and last `keep`
    replicas keep all their annotations, the ones in between only their `<item` span."""
    out = list(prog.key)
    # all `<item ... >item` spans; the richest one (most tokens, at most 14) is the one replicated: a qualified, aliased
    # reference or a call exercises more grouping passes than a bare name
    cands = []
    stack = []
    for i, s in enumerate(out):
        if s.startswith('<'):
            stack.append(i)
        elif s.startswith('>'):
            j = stack.pop()
            if out[j] == '<item':
                ntok = sum(1 for x in out[j:i + 1] if not x.startswith(('<', '>')))
                # only items that stay FLAT in their token list before grouping (no parenthesis, no CASE): the limits in
                # question count the direct children of one list
                if 1 <= ntok <= 14 and not any(x in ('lp', 'case', 'lbr') for x in out[j:i + 1]):
                    cands.append((ntok, -j, j, i))
    if not cands:
        return None
    _, _, start, end = max(cands)
    if min_item and max(cands)[0] < min_item:
        return None
    item = out[start:end + 1]
    ntok = sum(1 for s in item if not s.startswith(('<', '>')))
    if ntok == 0:
        return None
    # every token is followed by a blank when spelled: about 2 tokens per label (+ comma)
    k = max(4, target_tokens // (ntok + 1))       # at least one real token per label and one per comma
    bare = ['<item'] + [s for s in item[1:-1] if not s.startswith(('<', '>'))] + ['>item']
    reps = []
    for r in range(k):
        reps += (item if (r < keep or r >= k - keep) else bare) + ['comma']
    new = out[:start] + reps + out[start:]
    try:
        return sqlprog.Prog(new)
    except Exception:  # noqa
        return None
